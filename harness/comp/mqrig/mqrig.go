// Package mqrig drives the real response assembler -> peer message manager ->
// message queues -> allocator stack over the simulator's gated network, with
// recording wrappers at the allocator, the queue factory and every subscriber
// attachment. It serves C15 (memory accounting), C16 (exactly-once sent/failed
// reports) and C17 (one live queue per peer, FIFO on the wire).
package mqrig

import (
	"context"
	"fmt"
	"os"
	"runtime"
	"runtime/debug"
	"sort"
	"sync"
	"testing"
	"testing/synctest"
	"time"

	"github.com/ipfs/go-cid"
	"github.com/ipld/go-ipld-prime"
	cidlink "github.com/ipld/go-ipld-prime/linking/cid"
	"github.com/ipld/go-ipld-prime/node/basicnode"
	"github.com/libp2p/go-libp2p/core/peer"
	mh "github.com/multiformats/go-multihash"
	"pgregory.net/rapid"

	"github.com/ipfs/go-graphsync"
	"github.com/ipfs/go-graphsync/allocator"
	gsmsg "github.com/ipfs/go-graphsync/message"
	"github.com/ipfs/go-graphsync/messagequeue"
	"github.com/ipfs/go-graphsync/notifications"
	"github.com/ipfs/go-graphsync/peermanager"
	"github.com/ipfs/go-graphsync/responsemanager/responseassembler"

	"verif/harness/sim"
)

// ---- case ----

type TxOp struct {
	K    string `json:"k"`    // block ext status finish
	Size int    `json:"size"` // block / ext payload size
}

type Op struct {
	K    string `json:"k"` // tx noop connect disconnect stall unstall wait racefirst
	Peer int    `json:"peer"`
	Size int    `json:"size,omitempty"` // noop: bytes reserved by a build that then adds nothing
	Req  int    `json:"req,omitempty"`
	Tx   []TxOp `json:"tx,omitempty"`
}

type Case struct {
	Total       uint64 `json:"total"`
	PerPeer     uint64 `json:"per_peer"`
	Retries     int    `json:"retries"`
	Ops         []Op   `json:"ops"`
	FailSend    []int  `json:"fail_send"`    // indices (per whole run) of SendMsg calls that fail
	FailConn    []int  `json:"fail_conn"`    // indices of connect attempts that fail
	KeepStalled bool   `json:"keep_stalled"` // a send stalled at disconnect stays stalled until unstalled
}

const NPeers, NReqs = 2, 3

var Peers = []peer.ID{peer.ID("mq-peer-0"), peer.ID("mq-peer-1")}
var Self = peer.ID("mq-self")

func Gen(t *rapid.T, big bool) Case {
	c := Case{Retries: rapid.IntRange(1, 3).Draw(t, "retries")}
	unit := uint64(1000)
	c.PerPeer = unit * uint64(rapid.SampledFrom([]int{2, 3, 5, 1000}).Draw(t, "perpeer"))
	c.Total = unit * uint64(rapid.SampledFrom([]int{3, 6, 1000, 2000}).Draw(t, "total"))
	n := rapid.IntRange(1, 14).Draw(t, "nops")
	for i := 0; i < n; i++ {
		op := Op{Peer: rapid.IntRange(0, NPeers-1).Draw(t, "peer")}
		switch k := rapid.IntRange(0, 19).Draw(t, "k"); {
		case k < 10:
			op.K = "tx"
			op.Req = rapid.IntRange(0, NReqs-1).Draw(t, "req")
			m := rapid.IntRange(1, 4).Draw(t, "ntx")
			for j := 0; j < m; j++ {
				var x TxOp
				switch kk := rapid.IntRange(0, 9).Draw(t, "txk"); {
				case kk < 5:
					x.K = "block"
					sizes := []int{1, 400, 900, 1000, 1900}
					if big {
						sizes = append(sizes, 300*1024, 250*1024)
					}
					x.Size = rapid.SampledFrom(sizes).Draw(t, "bsize")
				case kk < 8:
					x.K = "ext"
					x.Size = rapid.SampledFrom([]int{0, 10, 500, 1200}).Draw(t, "esize")
				case kk < 9:
					x.K = "status"
				default:
					x.K = "finish"
				}
				op.Tx = append(op.Tx, x)
			}
		case k < 11:
			op.K = "connect"
		case k < 12:
			if rapid.Bool().Draw(t, "noop-or-req") {
				op.K = "req"
			} else {
				op.K = "noop"
				op.Size = rapid.SampledFrom([]int{0, 100, 1000}).Draw(t, "noopsize")
			}
		case k < 14:
			op.K = "disconnect"
		case k < 16:
			op.K = "stall"
		case k < 18:
			op.K = "unstall"
		default:
			op.K = "wait"
		}
		c.Ops = append(c.Ops, op)
	}
	clamp(&c)
	c.KeepStalled = rapid.Bool().Draw(t, "keepstalled")
	c.FailSend = rapid.SliceOfNDistinct(rapid.IntRange(0, 10), 0, 4, rapid.ID[int]).Draw(t, "failsend")
	if rapid.IntRange(0, 3).Draw(t, "hasfc") == 0 {
		c.FailConn = rapid.SliceOfNDistinct(rapid.IntRange(0, 6), 1, 3, rapid.ID[int]).Draw(t, "failconn")
	}
	return c
}

// clamp shrinks transactions so that each fits under both memory limits (a reservation larger than a
// limit can never be granted; the callers of the allocator never make one).
func clamp(c *Case) {
	for i := range c.Ops {
		if uint64(c.Ops[i].Size) > c.PerPeer || uint64(c.Ops[i].Size) > c.Total {
			c.Ops[i].Size = 0
		}
		tot := uint64(0)
		for j := range c.Ops[i].Tx {
			sz := uint64(c.Ops[i].Tx[j].Size)
			if c.Ops[i].Tx[j].K == "ext" && sz > 0 {
				sz += 3 // cbor header
			}
			if tot+sz+16 > c.PerPeer || tot+sz+16 > c.Total { // 16: room for the rig's marker extension
				c.Ops[i].Tx[j].Size = 0
				if c.Ops[i].Tx[j].K == "block" {
					c.Ops[i].Tx[j].K = "status"
				}
				continue
			}
			tot += sz
		}
	}
}

// ---- recording wrappers ----

type allocEvent struct {
	Kind   string // reserve granted failed release releasepeer
	Peer   peer.ID
	Amount uint64
	Held   uint64 // peer's holding before a release
}

type recAlloc struct {
	mu     sync.Mutex
	inner  *allocator.Allocator
	Events []allocEvent
	// pending reservations not yet answered
	Pending int
	// lastFailed: a reservation for the peer failed and no successful one followed
	lastFailed  map[peer.ID]bool
	OverRelease []string
}

func (a *recAlloc) AllocateBlockMemory(p peer.ID, amount uint64) <-chan error {
	a.mu.Lock()
	a.Events = append(a.Events, allocEvent{Kind: "reserve", Peer: p, Amount: amount})
	a.Pending++
	a.mu.Unlock()
	in := a.inner.AllocateBlockMemory(p, amount)
	out := make(chan error, 1)
	go func() {
		err := <-in
		a.mu.Lock()
		defer a.mu.Unlock()
		a.Pending--
		if err != nil {
			a.Events = append(a.Events, allocEvent{Kind: "failed", Peer: p, Amount: amount})
			a.lastFailed[p] = true
		} else {
			a.Events = append(a.Events, allocEvent{Kind: "granted", Peer: p, Amount: amount})
			a.lastFailed[p] = false
		}
		out <- err
	}()
	return out
}

func (a *recAlloc) ReleaseBlockMemory(p peer.ID, amount uint64) error {
	a.mu.Lock()
	defer a.mu.Unlock()
	held := a.inner.AllocatedForPeer(p)
	a.Events = append(a.Events, allocEvent{Kind: "release", Peer: p, Amount: amount, Held: held})
	if amount > held {
		a.OverRelease = append(a.OverRelease, fmt.Sprintf("release of %d for %s while it holds %d", amount, p, held))
	}
	return a.inner.ReleaseBlockMemory(p, amount)
}

func (a *recAlloc) ReleasePeerMemory(p peer.ID) error {
	a.mu.Lock()
	defer a.mu.Unlock()
	a.Events = append(a.Events, allocEvent{Kind: "releasepeer", Peer: p, Held: a.inner.AllocatedForPeer(p)})
	return a.inner.ReleasePeerMemory(p)
}

// attachment: one subscriber attached to one (message builder, request)
type Attachment struct {
	Peer    peer.ID
	Req     graphsync.RequestID
	Builder *messagequeue.Builder
	Events  []string // queued sent error close
	Seq     int
}

func (a *Attachment) OnNext(_ notifications.Topic, ev notifications.Event) {
	e, ok := ev.(messagequeue.Event)
	if !ok {
		return
	}
	switch e.Name {
	case messagequeue.Queued:
		a.Events = append(a.Events, "queued")
	case messagequeue.Sent:
		a.Events = append(a.Events, "sent")
	case messagequeue.Error:
		a.Events = append(a.Events, "error")
	}
}
func (a *Attachment) OnClose(notifications.Topic) { a.Events = append(a.Events, "close") }

type queueRec struct {
	Peer         peer.ID
	N            int
	Q            *messagequeue.MessageQueue
	ShutdownCall bool // Shutdown() called through the peer manager
	Callback     bool // onShutdown callback ran
	CreatedAt    int  // index of the op during which the queue was created
}

type recQueue struct {
	*messagequeue.MessageQueue
	rec *queueRec
}

func (q *recQueue) Shutdown() {
	q.rec.ShutdownCall = true
	q.MessageQueue.Shutdown()
}

// Obs is everything a run observed.
type Obs struct {
	Attachments                 []*Attachment
	Alloc                       *recAlloc
	Queues                      []*queueRec
	BuiltAfterFailedReservation []string
	MaxLivePerPeer              map[peer.ID]int
	LiveAfterLastDisconnect     []string
	FinalAllocated              map[peer.ID]uint64
	FinalTotal                  uint64
	FinalPending                int
	RacedFirstSends             bool // several first sends to a peer were released together
	NoopBuilds                  int  // builds that reserved memory and added nothing
	OutgoingRequests            int  // outgoing requests queued for a peer that is also being served
	ExitWhileBuilding           bool // a queue finished winding down while a message for its peer was waiting for memory or being built
	EventsAtFinal               int // allocator events recorded up to the final observation (the teardown that follows releases every peer)
	IdleViolations              []string          // allocation non-zero while the queue was idle
	WireOrder                   map[peer.ID][]int // marker sequence numbers as they reached SendMsg
	QueuedOrder                 map[peer.ID][]int
	BuiltOrder                  map[peer.ID][]int   // markers in the order their transactions finished building
	WireMsgs                    map[peer.ID][][]int // marker sets per message, in the order messages reached SendMsg
	IssuedAt                    map[int]int         // marker -> index of the op that handed it to its worker
	DoneAt                      map[int]int         // marker -> index of the first op after which its transaction was seen complete
	Hung                        bool
	Panic                       string
	// classification
	MultiMsgWithFault         bool
	ExtPresent                bool
	ReconnectWhilePending     bool
	WaitedReservation         bool
	ShutdownWhileReserving    bool
	SuccessorWhileWindingDown bool
}

var blockPrefix = cid.Prefix{Version: 1, Codec: cid.Raw, MhType: mh.SHA2_256, MhLength: 32}

func reqID(p, r int) graphsync.RequestID {
	b := []byte("mqrig-req-id-000")
	b[14] = byte('0' + p)
	b[15] = byte('0' + r)
	id, _ := graphsync.ParseRequestID(b)
	return id
}

type handler struct {
	pm   *peermanager.PeerMessageManager
	obs  *Obs
	seq  int
	atts map[*messagequeue.Builder]map[graphsync.RequestID]*Attachment
	prog *inProgress
}

// inProgress counts, per peer, the AllocateAndBuildMessage calls that have been made and not returned yet
// (waiting for their reservation, or building).
type inProgress struct {
	mu sync.Mutex
	n  map[peer.ID]int
}

func (ip *inProgress) add(p peer.ID, d int) {
	ip.mu.Lock()
	ip.n[p] += d
	ip.mu.Unlock()
}
func (ip *inProgress) get(p peer.ID) int {
	ip.mu.Lock()
	defer ip.mu.Unlock()
	return ip.n[p]
}

func (h *handler) AllocateAndBuildMessage(p peer.ID, size uint64, fn func(*messagequeue.Builder)) {
	h.prog.add(p, 1)
	defer h.prog.add(p, -1)
	h.pm.AllocateAndBuildMessage(p, size, func(b *messagequeue.Builder) {
		h.obs.Alloc.mu.Lock()
		failed := h.obs.Alloc.lastFailed[p]
		h.obs.Alloc.mu.Unlock()
		if size > 0 && failed {
			h.obs.BuiltAfterFailedReservation = append(h.obs.BuiltAfterFailedReservation, fmt.Sprintf("%d bytes queued for %s after its reservation failed", size, p))
		}
		fn(b)
		for id, sub := range b.Subscribers() {
			if _, mine := sub.(*Attachment); mine {
				continue
			}
			if h.atts[b] == nil {
				h.atts[b] = map[graphsync.RequestID]*Attachment{}
			}
			a := h.atts[b][id]
			if a == nil {
				a = &Attachment{Peer: p, Req: id, Builder: b, Seq: h.seq}
				h.seq++
				h.atts[b][id] = a
				h.obs.Attachments = append(h.obs.Attachments, a)
			}
			b.SetSubscriber(id, a)
		}
	})
}

// connAdapter plays the part of graphSyncReceiver: connection notifications from the
// network reach the peer manager.
type connAdapter struct {
	pm   *peermanager.PeerMessageManager
	refs map[peer.ID]int
}

func (a *connAdapter) ReceiveMessage(context.Context, peer.ID, gsmsg.GraphSyncMessage) {}
func (a *connAdapter) ReceiveError(peer.ID, error)                                     {}
func (a *connAdapter) Connected(p peer.ID) {
	a.refs[p]++
	a.pm.Connected(p)
}
func (a *connAdapter) Disconnected(p peer.ID) {
	if a.refs[p] > 0 {
		a.refs[p]--
		a.pm.Disconnected(p)
	}
}

type nullSub struct{}

func (nullSub) OnNext(notifications.Topic, notifications.Event) {}
func (nullSub) OnClose(notifications.Topic)                     {}

// Run executes the case in a bubble.
func Run(t *testing.T, c Case) *Obs {
	obs := &Obs{MaxLivePerPeer: map[peer.ID]int{}, FinalAllocated: map[peer.ID]uint64{}, WireOrder: map[peer.ID][]int{}, QueuedOrder: map[peer.ID][]int{}, BuiltOrder: map[peer.ID][]int{}, WireMsgs: map[peer.ID][][]int{}, IssuedAt: map[int]int{}, DoneAt: map[int]int{}}
	defer func() {
		if r := recover(); r != nil {
			s := fmt.Sprint(r)
			if len(s) > 8 && (contains(s, "deadlock") && contains(s, "bubble")) {
				obs.Hung = true
				return
			}
			obs.Panic = s
		}
	}()
	synctest.Test(t, func(t *testing.T) {
		ctx, cancel := context.WithCancel(context.Background())
		net := sim.NewNet()
		net.KeepBlockedOnDisconnect = c.KeepStalled
		self := net.AddEndpoint(Self)
		for _, p := range Peers {
			net.AddEndpoint(p)
		}
		failSend := map[int]bool{}
		for _, i := range c.FailSend {
			failSend[i] = true
		}
		failConn := map[int]bool{}
		for _, i := range c.FailConn {
			failConn[i] = true
		}
		stalled := map[peer.ID]bool{}
		sendN, connN := 0, 0
		net.SendPolicy = func(from, to peer.ID, n int, m gsmsg.GraphSyncMessage) sim.SendOutcome {
			// record what reaches SendMsg: marker = extension "marker" int per response (we use status-only markers via metadata length)
			var ms []int
			for _, r := range m.Responses() {
				if d, ok := r.Extension("test/marker"); ok {
					if n, err := d.AsInt(); err == nil {
						ms = append(ms, int(n))
					}
				}
			}
			sort.Ints(ms)
			if len(ms) > 0 {
				prev := obs.WireMsgs[to]
				if len(prev) == 0 || fmt.Sprint(prev[len(prev)-1]) != fmt.Sprint(ms) { // a retry resends the same message
					obs.WireMsgs[to] = append(obs.WireMsgs[to], ms)
				}
			}
			k := sendN
			sendN++
			if failSend[k] {
				return sim.SendFail
			}
			if stalled[to] {
				return sim.SendBlock
			}
			return sim.SendOK
		}
		net.ConnectPolicy = func(from, to peer.ID) error {
			k := connN
			connN++
			if failConn[k] {
				return fmt.Errorf("sim: connect %d failed", k)
			}
			return nil
		}
		alloc := &recAlloc{inner: allocator.NewAllocator(c.Total, c.PerPeer), lastFailed: map[peer.ID]bool{}}
		obs.Alloc = alloc
		qn := 0
		curOp := 0
		lastDisc := map[peer.ID]int{} // op index of the peer's latest disconnect that left it without a connection
		var factoryGate chan struct{} // when set, creating a queue for gatedPeer blocks (the peer table is locked meanwhile)
		var gatedPeer peer.ID
		prog := &inProgress{n: map[peer.ID]int{}}
		pm := peermanager.NewMessageManager(ctx, func(ctx context.Context, p peer.ID, onShutdown func(peer.ID)) peermanager.PeerQueue {
			if g := factoryGate; g != nil && p == gatedPeer {
				<-g
			}
			rec := &queueRec{Peer: p, N: qn, CreatedAt: curOp}
			qn++
			if os.Getenv("VERIF_DEBUG") != "" {
				fmt.Printf("--- queue %d created for %s\n%s\n", rec.N, p, debug.Stack())
			}
			for _, old := range obs.Queues {
				if old.Peer == p && !old.Callback {
					obs.SuccessorWhileWindingDown = true
				}
			}
			q := messagequeue.New(ctx, p, self, alloc, c.Retries, 10*time.Minute, func(p peer.ID) {
				if prog.get(p) > 0 {
					obs.ExitWhileBuilding = true
				}
				rec.Callback = true
				onShutdown(p)
			})
			rec.Q = q
			obs.Queues = append(obs.Queues, rec)
			return &recQueue{MessageQueue: q, rec: rec}
		})
		adapter := &connAdapter{pm: pm, refs: map[peer.ID]int{}}
		self.SetDelegate(adapter)
		h := &handler{prog: prog, pm: pm, obs: obs, atts: map[*messagequeue.Builder]map[graphsync.RequestID]*Attachment{}}
		ra := responseassembler.New(ctx, h)
		// per (peer, request) worker executing transactions in order (as one executor would)
		type work struct {
			tx     []TxOp
			marker int
		}
		chans := map[[2]int]chan work{}
		streams := map[[2]int]responseassembler.ResponseStream{}
		blockN := 0
		nreq := 0
		marker := 0
		pendingTx := 0
		var mu sync.Mutex
		worker := func(key [2]int, ch chan work) {
			for wk := range ch {
				s := streams[key]
				mk := wk.marker
				_ = s.Transaction(func(rb responseassembler.ResponseBuilder) error {
					rb.SendExtensionData(graphsync.ExtensionData{Name: "test/marker", Data: basicnode.NewInt(int64(mk))})
					for _, x := range wk.tx {
						switch x.K {
						case "block":
							blockN++
							data := make([]byte, x.Size)
							copy(data, fmt.Sprintf("blk-%d-", blockN))
							cc, _ := blockPrefix.Sum(data)
							rb.SendResponse(cidlink.Link{Cid: cc}, data)
						case "ext":
							var d ipld.Node
							if x.Size > 0 {
								d = basicnode.NewBytes(make([]byte, x.Size))
							}
							rb.SendExtensionData(graphsync.ExtensionData{Name: "test/ext", Data: d})
						case "status":
							rb.PauseRequest()
						case "finish":
							rb.FinishRequest()
						}
					}
					return nil
				})
				mu.Lock()
				pendingTx--
				obs.BuiltOrder[Peers[key[0]]] = append(obs.BuiltOrder[Peers[key[0]]], mk)
				mu.Unlock()
			}
		}
		live := func(p peer.ID) int {
			n := 0
			for _, q := range obs.Queues {
				if q.Peer == p && !q.ShutdownCall && !q.Callback {
					n++
				}
			}
			return n
		}
		check := func() {
			synctest.Wait()
			for _, p := range Peers {
				if l := live(p); l > obs.MaxLivePerPeer[p] {
					obs.MaxLivePerPeer[p] = l
				}
			}
		}
		issue := func(opIdx int, op Op) {
			p := Peers[op.Peer%NPeers]
				key := [2]int{op.Peer % NPeers, op.Req % NReqs}
			if chans[key] == nil {
				chans[key] = make(chan work, 64)
				streams[key] = ra.NewStream(ctx, p, reqID(key[0], key[1]), nullSub{})
				go worker(key, chans[key])
			}
			for _, x := range op.Tx {
				if x.K == "ext" && x.Size > 0 {
					obs.ExtPresent = true
				}
			}
			// does any queue for p have unfinished shutdown pending? (classification)
			for _, q := range obs.Queues {
				if q.Peer == p && q.ShutdownCall && !q.Callback {
					obs.ReconnectWhilePending = true
				}
			}
			marker++
			obs.IssuedAt[marker] = opIdx
			obs.QueuedOrder[p] = append(obs.QueuedOrder[p], marker)
			mu.Lock()
			pendingTx++
			mu.Unlock()
			chans[key] <- work{tx: op.Tx, marker: marker}
		}
		for opIdx, op := range c.Ops {
			p := Peers[op.Peer%NPeers]
			curOp = opIdx
			switch op.K {
			case "tx":
				issue(opIdx, op)
			case "req":
				// an outgoing request of this node to the peer (the peer is both served and asked): a size-0
				// build that adds a request and attaches its party, without a response stream
				obs.OutgoingRequests++
				nreq++
				rid := reqID(op.Peer%NPeers, 3+nreq%6)
				q := gsmsg.NewCancelRequest(rid)
				go h.AllocateAndBuildMessage(p, 0, func(b *messagequeue.Builder) {
					b.AddRequest(q)
					b.SetSubscriber(rid, nullSub{})
				})
			case "noop":
				// a build that reserves memory and then adds nothing, as a transaction of a response stream that
				// was closed in the meantime does
				obs.NoopBuilds++
				sz := uint64(op.Size)
				go h.AllocateAndBuildMessage(p, sz, func(*messagequeue.Builder) {})
			case "racefirst":
				// first sends to a peer with no queue yet, arriving together while the peer table is locked by
				// the (slow) creation of another peer's queue
				q := Peers[(op.Peer+1)%NPeers]
				fresh := true
				for _, qr := range obs.Queues {
					if qr.Peer == p || qr.Peer == q {
						fresh = false
					}
				}
				if !fresh || net.IsConnected(Self, q) {
					break
				}
				yield := func() {
					for i := 0; i < 300; i++ {
						runtime.Gosched()
					}
				}
				g := make(chan struct{})
				factoryGate, gatedPeer = g, q
				go net.Connect(Self, q)
				yield()
				for r := 0; r < NReqs && r < 1+len(op.Tx); r++ {
					issue(opIdx, Op{K: "tx", Peer: op.Peer, Req: r, Tx: []TxOp{{K: "block", Size: 100}}})
				}
				yield()
				factoryGate = nil
				close(g)
				obs.RacedFirstSends = true
			case "connect":
				for _, q := range obs.Queues {
					if q.Peer == p && q.ShutdownCall && !q.Callback {
						obs.ReconnectWhilePending = true
					}
				}
				if !net.IsConnected(Self, p) {
					net.Connect(Self, p) // notifies the adapter, as libp2p's notifee would
				} else {
					adapter.Connected(p) // a further connection to the same peer
				}
			case "disconnect":
				if alloc.Pending > 0 {
					obs.ShutdownWhileReserving = true
				}
				if adapter.refs[p] > 1 {
					adapter.Disconnected(p)
				} else {
					if net.IsConnected(Self, p) {
						lastDisc[p] = opIdx
					}
					net.Disconnect(Self, p)
				}
			case "stall":
				stalled[p] = true
			case "unstall":
				stalled[p] = false
				net.ReleaseBlocked()
			case "wait":
			}
			check()
			mu.Lock()
			for _, bo := range obs.BuiltOrder {
				for _, m := range bo {
					if _, ok := obs.DoneAt[m]; !ok {
						obs.DoneAt[m] = opIdx
					}
				}
			}
			mu.Unlock()
			if alloc.Pending > 0 {
				obs.WaitedReservation = true
			}
		}
		// release every gate and let everything drain
		for _, p := range Peers {
			stalled[p] = false
		}
		net.ReleaseBlocked()
		for i := 0; i < 20; i++ {
			check()
			time.Sleep(2 * time.Second)
			check()
			net.ReleaseBlocked()
			if alloc.Pending == 0 && pendingTx == 0 && net.PendingCount() == 0 {
				// drop delivered envelopes (scripted receivers)
			}
			for _, l := range net.PendingLinks() {
				net.Deliver(l[0], l[1])
			}
		}
		check()
		mu.Lock()
		obs.FinalPending = alloc.Pending + pendingTx
		mu.Unlock()
		for _, p := range Peers {
			obs.FinalAllocated[p] = alloc.inner.AllocatedForPeer(p)
			if adapter.refs[p] == 0 && !net.IsConnected(Self, p) {
				// queues that were there when the peer's last connection went away (one created afterwards by
				// a build that adds nothing never connects and is not this property's concern)
				n := 0
				for _, q := range obs.Queues {
					if d, ok := lastDisc[p]; q.Peer == p && !q.ShutdownCall && !q.Callback && ok && q.CreatedAt <= d {
						n++
					}
				}
				if n > 0 {
					obs.LiveAfterLastDisconnect = append(obs.LiveAfterLastDisconnect, fmt.Sprintf("%s still has %d live queue(s) after its last disconnect", p, n))
				}
			}
		}
		obs.FinalTotal = alloc.inner.Stats().TotalAllocatedAllPeers
		alloc.mu.Lock()
		obs.EventsAtFinal = len(alloc.Events)
		alloc.mu.Unlock()
		// teardown
		for _, ch := range chans {
			close(ch)
		}
		cancel()
		net.Close()
		synctest.Wait()
	})
	// classification
	perReq := map[graphsync.RequestID]int{}
	for _, a := range obs.Attachments {
		perReq[a.Req]++
	}
	for _, n := range perReq {
		if n >= 2 && (len(c.FailSend) > 0 || len(c.FailConn) > 0) {
			obs.MultiMsgWithFault = true
		}
	}
	return obs
}

func appendOnce(s []int, v int) []int {
	for _, x := range s {
		if x == v {
			return s
		}
	}
	return append(s, v)
}

func contains(s, sub string) bool {
	for i := 0; i+len(sub) <= len(s); i++ {
		if s[i:i+len(sub)] == sub {
			return true
		}
	}
	return false
}

// SortedInts helper
func SortedInts(s []int) []int {
	out := append([]int(nil), s...)
	sort.Ints(out)
	return out
}

// Classify adds the shared labels.
func Classify(v interface{ Label(string) }, c Case, o *Obs) {
	if o.MultiMsgWithFault {
		v.Label("multi-message-request-with-fault")
	}
	if o.ExtPresent {
		v.Label("extension-data")
	}
	if o.ReconnectWhilePending {
		v.Label("activity-while-old-queue-winds-down")
	}
	if o.WaitedReservation {
		v.Label("reservation-waited")
	}
	if o.ShutdownWhileReserving {
		v.Label("disconnect-while-reserving")
	}
	if len(c.FailConn) > 0 {
		v.Label("connect-failure")
	}
	if o.NoopBuilds > 0 {
		v.Label("build-that-adds-nothing")
	}
	if o.OutgoingRequests > 0 {
		v.Label("outgoing-request-in-the-same-queue")
	}
	if len(c.FailSend) > 0 {
		v.Label("send-failure")
	}
}

// LateBuildClass reports whether the history belongs to the class of known finding
// C16-built-after-queue-exit: a queue exits (it releases the peer's memory on its way out)
// while memory is reserved, or still being reserved, for a builder it has not been handed yet --
// observed as ReleasePeerMemory finding memory still held, or as a reservation answered with an error.
func (o *Obs) LateBuildClass() bool {
	if o.ExitWhileBuilding {
		return true
	}
	evs := o.Alloc.Events
	if o.EventsAtFinal > 0 && o.EventsAtFinal <= len(evs) {
		evs = evs[:o.EventsAtFinal] // what the harness's own teardown releases says nothing about the history
	}
	for _, e := range evs {
		// a reservation answered with an error: the peer's memory was released (its queue exited) while it waited
		if e.Kind == "failed" {
			return true
		}
	}
	return false
}

// SuccessorClass: a queue was created for a peer while an earlier queue for the same peer had
// not finished winding down (its shutdown callback had not run yet).
func (o *Obs) SuccessorClass() bool { return o.SuccessorWhileWindingDown }

// GenWindDown draws histories built around the pattern that keeps an old queue winding
// down behind a stalled send while its peer disconnects, reconnects and is sent to again.
func GenWindDown(t *rapid.T) Case {
	c := Case{Retries: rapid.IntRange(1, 3).Draw(t, "retries"), PerPeer: 1000 * uint64(rapid.SampledFrom([]int{3, 5, 1000}).Draw(t, "perpeer")), Total: 1000 * uint64(rapid.SampledFrom([]int{6, 1000}).Draw(t, "total"))}
	p := rapid.IntRange(0, NPeers-1).Draw(t, "peer")
	tx := func() Op {
		op := Op{K: "tx", Peer: p, Req: rapid.IntRange(0, NReqs-1).Draw(t, "req")}
		n := rapid.IntRange(1, 3).Draw(t, "ntx")
		for i := 0; i < n; i++ {
			switch rapid.IntRange(0, 3).Draw(t, "txk") {
			case 0:
				op.Tx = append(op.Tx, TxOp{K: "status"})
			case 1:
				op.Tx = append(op.Tx, TxOp{K: "ext", Size: rapid.SampledFrom([]int{0, 10, 300}).Draw(t, "esize")})
			default:
				op.Tx = append(op.Tx, TxOp{K: "block", Size: rapid.SampledFrom([]int{1, 400, 900}).Draw(t, "bsize")})
			}
		}
		return op
	}
	maybe := func(op Op) {
		if rapid.IntRange(0, 3).Draw(t, "maybe") > 0 {
			c.Ops = append(c.Ops, op)
		}
	}
	other := Op{K: "tx", Peer: 1 - p, Req: 0, Tx: []TxOp{{K: "block", Size: 400}}}
	maybe(Op{K: "connect", Peer: p})
	c.Ops = append(c.Ops, tx())
	c.Ops = append(c.Ops, Op{K: "stall", Peer: p})
	c.Ops = append(c.Ops, tx())
	maybe(tx())
	maybe(other)
	c.Ops = append(c.Ops, Op{K: "disconnect", Peer: p})
	maybe(tx())
	maybe(Op{K: "connect", Peer: p})
	c.Ops = append(c.Ops, tx())
	maybe(Op{K: "disconnect", Peer: p})
	maybe(tx())
	c.Ops = append(c.Ops, Op{K: "unstall", Peer: p})
	maybe(tx())
	maybe(Op{K: "disconnect", Peer: p})
	c.Ops = append(c.Ops, Op{K: "wait", Peer: p})
	c.KeepStalled = rapid.IntRange(0, 3).Draw(t, "keepstalled") > 0
	c.FailSend = rapid.SliceOfNDistinct(rapid.IntRange(0, 8), 0, 2, rapid.ID[int]).Draw(t, "failsend")
	if rapid.IntRange(0, 4).Draw(t, "hasfc") == 0 {
		c.FailConn = rapid.SliceOfNDistinct(rapid.IntRange(0, 8), 1, 2, rapid.ID[int]).Draw(t, "failconn")
	}
	return c
}

// GenFailBurst draws histories built around a send that fails as often as the queue retries it (the
// queue keeps running and discards the rest of the failed request) while further transactions of the
// same request are queued behind it or still wait for memory.
func GenFailBurst(t *rapid.T) Case {
	c := Case{Retries: rapid.IntRange(1, 2).Draw(t, "retries")}
	p := rapid.IntRange(0, NPeers-1).Draw(t, "peer")
	req := rapid.IntRange(0, NReqs-1).Draw(t, "req")
	first := rapid.SampledFrom([]int{400, 900, 1900}).Draw(t, "first")
	if rapid.Bool().Draw(t, "pressure") {
		// the first message nearly fills the peer's allowance: what follows waits for memory
		c.PerPeer, c.Total = uint64(first)+uint64(rapid.SampledFrom([]int{100, 600}).Draw(t, "room")), 1000000
	} else {
		c.PerPeer, c.Total = 1000000, 1000000
	}
	part := func(r int) Op {
		op := Op{K: "tx", Peer: p, Req: r}
		n := rapid.IntRange(1, 2).Draw(t, "ntx")
		for i := 0; i < n; i++ {
			switch rapid.IntRange(0, 3).Draw(t, "txk") {
			case 0:
				op.Tx = append(op.Tx, TxOp{K: "status"})
			case 1, 2:
				op.Tx = append(op.Tx, TxOp{K: "ext", Size: rapid.SampledFrom([]int{10, 300, 500}).Draw(t, "esize")})
			default:
				op.Tx = append(op.Tx, TxOp{K: "block", Size: rapid.SampledFrom([]int{1, 400, 500}).Draw(t, "bsize")})
			}
		}
		return op
	}
	maybe := func(op Op) {
		if rapid.IntRange(0, 2).Draw(t, "maybe") > 0 {
			c.Ops = append(c.Ops, op)
		}
	}
	maybe(Op{K: "connect", Peer: p})
	c.Ops = append(c.Ops, Op{K: "tx", Peer: p, Req: req, Tx: []TxOp{{K: "block", Size: first}}})
	c.Ops = append(c.Ops, part(req))
	maybe(part(req))
	maybe(part((req + 1) % NReqs))
	maybe(Op{K: "req", Peer: p})
	maybe(Op{K: "tx", Peer: 1 - p, Req: 0, Tx: []TxOp{{K: "block", Size: 400}}})
	maybe(part(req))
	c.Ops = append(c.Ops, Op{K: "wait", Peer: p})
	for i := 0; i < c.Retries; i++ {
		c.FailSend = append(c.FailSend, i)
	}
	if rapid.IntRange(0, 3).Draw(t, "morefail") == 0 {
		c.FailSend = append(c.FailSend, c.Retries+rapid.IntRange(0, 3).Draw(t, "later"))
	}
	clamp(&c)
	return c
}

// GenBacklog draws histories in which several full-size messages pile up behind a stalled send, so that
// later parts have to be placed relative to earlier, partly filled messages.
func GenBacklog(t *rapid.T) Case {
	c := Case{Retries: rapid.IntRange(1, 2).Draw(t, "retries"), PerPeer: 64 << 20, Total: 256 << 20}
	p := rapid.IntRange(0, NPeers-1).Draw(t, "peer")
	c.Ops = append(c.Ops, Op{K: "connect", Peer: p})
	if rapid.IntRange(0, 3).Draw(t, "stall") > 0 {
		c.Ops = append(c.Ops, Op{K: "stall", Peer: p})
		c.Ops = append(c.Ops, Op{K: "tx", Peer: p, Req: 0, Tx: []TxOp{{K: "block", Size: 100}}})
	}
	n := rapid.IntRange(2, 6).Draw(t, "nparts")
	for i := 0; i < n; i++ {
		if rapid.IntRange(0, 3).Draw(t, "noop") == 0 {
			c.Ops = append(c.Ops, Op{K: "noop", Peer: p, Size: rapid.SampledFrom([]int{0, 1000}).Draw(t, "noopsize")})
		}
		sz := rapid.SampledFrom([]int{60 * 1024, 100 * 1024, 250 * 1024, 300 * 1024, 400 * 1024, 500 * 1024, 600 * 1024}).Draw(t, "bsize")
		c.Ops = append(c.Ops, Op{K: "tx", Peer: p, Req: rapid.IntRange(0, NReqs-1).Draw(t, "req"), Tx: []TxOp{{K: "block", Size: sz}}})
	}
	if rapid.IntRange(0, 2).Draw(t, "disc") == 0 {
		c.Ops = append(c.Ops, Op{K: "disconnect", Peer: p})
	}
	c.Ops = append(c.Ops, Op{K: "unstall", Peer: p})
	c.Ops = append(c.Ops, Op{K: "wait", Peer: p})
	if rapid.IntRange(0, 3).Draw(t, "fail") == 0 {
		c.FailSend = []int{rapid.IntRange(0, 3).Draw(t, "failidx")}
	}
	return c
}

// GenFirstSendRace draws histories that begin with several first sends to a peer arriving together.
func GenFirstSendRace(t *rapid.T) Case {
	c := Case{Retries: 1, PerPeer: 1000000, Total: 1000000}
	p := rapid.IntRange(0, NPeers-1).Draw(t, "peer")
	n := rapid.IntRange(1, 2).Draw(t, "extra")
	c.Ops = append(c.Ops, Op{K: "racefirst", Peer: p, Tx: make([]TxOp, n)})
	for i := rapid.IntRange(0, 3).Draw(t, "more"); i > 0; i-- {
		c.Ops = append(c.Ops, Op{K: "tx", Peer: p, Req: rapid.IntRange(0, NReqs-1).Draw(t, "req"), Tx: []TxOp{{K: "block", Size: 400}}})
	}
	if rapid.Bool().Draw(t, "conn") {
		c.Ops = append(c.Ops, Op{K: "connect", Peer: p})
		c.Ops = append(c.Ops, Op{K: "disconnect", Peer: p})
	}
	c.Ops = append(c.Ops, Op{K: "wait", Peer: p})
	return c
}
