// Package allocrig drives the real allocator.Allocator through a history of
// operations next to an obviously-correct reference model and reports
// violations of C13 (limits + exact accounting) and C14 (grant timing/order).
package allocrig

import (
	"fmt"

	"github.com/ipfs/go-graphsync/allocator"
	"github.com/libp2p/go-libp2p/core/peer"
)

type OpKind int

const (
	Alloc OpKind = iota
	Release
	ReleasePeer
)

type Op struct {
	K OpKind `json:"k"`
	P int    `json:"p"`
	A uint64 `json:"a,omitempty"`
}

func (o Op) String() string {
	switch o.K {
	case Alloc:
		return fmt.Sprintf("alloc(p%d,%d)", o.P, o.A)
	case Release:
		return fmt.Sprintf("release(p%d,%d)", o.P, o.A)
	}
	return fmt.Sprintf("releasePeer(p%d)", o.P)
}

type History struct {
	Total   uint64 `json:"total"`
	PerPeer uint64 `json:"per_peer"`
	Ops     []Op   `json:"ops"`
}

var Peers = []peer.ID{peer.ID("peer-0"), peer.ID("peer-1"), peer.ID("peer-2"), peer.ID("peer-3")}

const (
	stWaiting = iota
	stGranted
	stFailed
)

type waiter struct {
	p      int
	amount uint64
	idx    int // request order
	state  int
	ch     <-chan error
}

// model is the reference derived from the statement of C14.
type model struct {
	total, perPeer uint64
	used           uint64
	alloc          map[int]uint64
	queues         map[int][]*waiter
}

func (m *model) tryGrantNow(w *waiter) bool {
	if len(m.queues[w.p]) == 0 && m.used+w.amount <= m.total && m.alloc[w.p]+w.amount <= m.perPeer {
		m.used += w.amount
		m.alloc[w.p] += w.amount
		return true
	}
	return false
}

// drain grants waiting heads: the earliest-requested head that fits its own
// peer's limit goes next, iff it also fits the total.
func (m *model) drain(granted func(*waiter)) {
	for {
		var best *waiter
		for _, q := range m.queues {
			if len(q) == 0 {
				continue
			}
			h := q[0]
			if m.alloc[h.p]+h.amount > m.perPeer {
				continue
			}
			if best == nil || h.idx < best.idx {
				best = h
			}
		}
		if best == nil || m.used+best.amount > m.total {
			return
		}
		m.used += best.amount
		m.alloc[best.p] += best.amount
		m.queues[best.p] = m.queues[best.p][1:]
		granted(best)
	}
}

// Result of one history.
type Result struct {
	C13, C14      string // first violation text, "" if none
	WokeByRelease int    // waiters granted as a consequence of a release/releasePeer
	PeersUsed     int
	Waited        int
	Failed        int
	Clamped       int
	Steps         int
}

func (r *Result) NonTrivial() bool { return r.WokeByRelease >= 1 && r.PeersUsed >= 2 }

// Run executes h against a fresh allocator and the model. finalSweep appends a
// releasePeer for every peer and checks the all-released clause of C13.
func Run(h History, finalSweep bool) (res Result) {
	a := allocator.NewAllocator(h.Total, h.PerPeer)
	m := &model{total: h.Total, perPeer: h.PerPeer, alloc: map[int]uint64{}, queues: map[int][]*waiter{}}
	// impl-side ledger for C13, built only from what the implementation was observed to do
	ledger := map[int]uint64{}
	var ledgerTotal uint64
	type obs struct {
		w       *waiter // model's view
		implSt  int
		counted bool
	}
	var all []*obs
	seen := map[int]bool{}
	nextIdx := 0
	fail13 := func(f string, a ...any) {
		if res.C13 == "" {
			res.C13 = fmt.Sprintf(f, a...)
		}
	}
	fail14 := func(f string, a ...any) {
		if res.C14 == "" {
			res.C14 = fmt.Sprintf(f, a...)
		}
	}
	poll := func(step int, op Op) {
		for _, o := range all {
			if o.implSt != stWaiting {
				continue
			}
			select {
			case err := <-o.w.ch:
				if err == nil {
					o.implSt = stGranted
					ledger[o.w.p] += o.w.amount
					ledgerTotal += o.w.amount
				} else {
					o.implSt = stFailed
				}
			default:
			}
		}
		// C14: statuses must agree with the model's
		for _, o := range all {
			if o.implSt != o.w.state {
				fail14("step %d %s: allocation #%d (p%d,%d) impl=%s model=%s", step, op, o.w.idx, o.w.p, o.w.amount, stName(o.implSt), stName(o.w.state))
			}
		}
		// C13: limits and exact accounting against the impl's own observed grants
		var pendSum uint64
		pendPeers := map[int]uint64{}
		for _, o := range all {
			if o.implSt == stWaiting {
				pendSum += o.w.amount
				pendPeers[o.w.p] += o.w.amount
			}
		}
		var npend uint64
		for _, v := range pendPeers {
			if v > 0 {
				npend++
			}
		}
		st := a.Stats()
		if st.TotalAllocatedAllPeers != ledgerTotal {
			fail13("step %d %s: Stats().TotalAllocatedAllPeers=%d, granted-released=%d", step, op, st.TotalAllocatedAllPeers, ledgerTotal)
		}
		if ledgerTotal > h.Total {
			fail13("step %d %s: granted total %d exceeds limit %d", step, op, ledgerTotal, h.Total)
		}
		if st.TotalPendingAllocations != pendSum {
			fail13("step %d %s: Stats().TotalPendingAllocations=%d, waiting sum=%d", step, op, st.TotalPendingAllocations, pendSum)
		}
		if st.NumPeersWithPendingAllocations != npend {
			fail13("step %d %s: Stats().NumPeersWithPendingAllocations=%d, want %d", step, op, st.NumPeersWithPendingAllocations, npend)
		}
		for p := range seen {
			got := a.AllocatedForPeer(Peers[p])
			if got != ledger[p] {
				fail13("step %d %s: AllocatedForPeer(p%d)=%d, granted-released=%d", step, op, p, got, ledger[p])
			}
			if ledger[p] > h.PerPeer {
				fail13("step %d %s: p%d holds %d > per-peer limit %d", step, op, p, ledger[p], h.PerPeer)
			}
		}
	}
	apply := func(step int, op Op) {
		seen[op.P] = true
		switch op.K {
		case Alloc:
			ch := a.AllocateBlockMemory(Peers[op.P], op.A)
			w := &waiter{p: op.P, amount: op.A, idx: nextIdx, ch: ch}
			nextIdx++
			if m.tryGrantNow(w) {
				w.state = stGranted
			} else {
				w.state = stWaiting
				m.queues[op.P] = append(m.queues[op.P], w)
				res.Waited++
			}
			all = append(all, &obs{w: w})
		case Release:
			_ = a.ReleaseBlockMemory(Peers[op.P], op.A)
			amt := op.A
			if m.alloc[op.P] < amt {
				amt = m.alloc[op.P]
			}
			m.alloc[op.P] -= amt
			m.used -= amt
			// ledger (impl-side) with the clamp the property demands
			la := op.A
			if ledger[op.P] < la {
				la = ledger[op.P]
				res.Clamped++
			}
			ledger[op.P] -= la
			ledgerTotal -= la
			m.drain(func(w *waiter) { w.state = stGranted; res.WokeByRelease++ })
		case ReleasePeer:
			_ = a.ReleasePeerMemory(Peers[op.P])
			for _, w := range m.queues[op.P] {
				w.state = stFailed
				res.Failed++
			}
			m.queues[op.P] = nil
			m.used -= m.alloc[op.P]
			m.alloc[op.P] = 0
			ledgerTotal -= ledger[op.P]
			ledger[op.P] = 0
			m.drain(func(w *waiter) { w.state = stGranted; res.WokeByRelease++ })
		}
		poll(step, op)
	}
	for i, op := range h.Ops {
		apply(i, op)
		res.Steps++
		if res.C13 != "" && res.C14 != "" {
			break
		}
	}
	res.PeersUsed = len(seen)
	wokeInHistory := res.WokeByRelease
	defer func() { res.WokeByRelease = wokeInHistory }()
	if finalSweep && res.C13 == "" && res.C14 == "" {
		i := len(h.Ops)
		ps := make([]int, 0, len(seen))
		for p := 0; p < len(Peers); p++ {
			if seen[p] {
				ps = append(ps, p)
			}
		}
		for _, p := range ps {
			apply(i, Op{K: ReleasePeer, P: p})
			i++
		}
		st := a.Stats()
		if st.TotalAllocatedAllPeers != 0 || st.TotalPendingAllocations != 0 || st.NumPeersWithPendingAllocations != 0 {
			fail13("after releasing every peer: Stats()=%+v, want nothing allocated or pending", st)
		}
		for _, o := range all {
			if o.implSt == stWaiting {
				fail14("after releasing every peer: allocation #%d (p%d,%d) still waiting", o.w.idx, o.w.p, o.w.amount)
			}
		}
	}
	return res
}

func stName(s int) string {
	return [...]string{"waiting", "granted", "failed"}[s]
}

// Alphabet is the exhaustive-enumeration alphabet: 2 peers, amounts 1..3.
func Alphabet() []Op {
	var ops []Op
	for p := 0; p < 2; p++ {
		for a := uint64(1); a <= 3; a++ {
			ops = append(ops, Op{K: Alloc, P: p, A: a})
		}
	}
	for p := 0; p < 2; p++ {
		for a := uint64(1); a <= 3; a++ {
			ops = append(ops, Op{K: Release, P: p, A: a})
		}
	}
	for p := 0; p < 2; p++ {
		ops = append(ops, Op{K: ReleasePeer, P: p})
	}
	return ops
}

// LimitPairs used by exhaustive enumeration.
var LimitPairs = [][2]uint64{{4, 3}, {5, 2}, {3, 3}}

// Enumerate runs every history of exactly length n over Alphabet for the given
// limit pair, restricted to first-op indices with first%nshards==shard, and
// calls visit for each.
func Enumerate(n int, lim [2]uint64, shard, nshards int, visit func(h History, r Result) bool) {
	alpha := Alphabet()
	idx := make([]int, n)
	ops := make([]Op, n)
	var rec func(d int) bool
	rec = func(d int) bool {
		if d == n {
			h := History{Total: lim[0], PerPeer: lim[1], Ops: ops}
			r := Run(h, true)
			return visit(h, r)
		}
		for i := range alpha {
			if d == 1 && (idx[0]*len(alpha)+i)%nshards != shard {
				continue
			}
			idx[d] = i
			ops[d] = alpha[i]
			if !rec(d + 1) {
				return false
			}
		}
		return true
	}
	rec(0)
}
