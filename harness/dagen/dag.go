// Package dagen generates DAGs, selectors and store splits as plain
// JSON-serialisable specs, builds them into real IPLD blocks, and provides
// reference traversals written directly on go-ipld-prime (nothing of
// go-graphsync is used here).
package dagen

import (
	"bytes"
	"fmt"
	"sort"

	"github.com/ipfs/go-cid"
	"github.com/ipld/go-ipld-prime"
	"github.com/ipld/go-ipld-prime/codec/dagcbor"
	"github.com/ipld/go-ipld-prime/datamodel"
	"github.com/ipld/go-ipld-prime/fluent/qp"
	cidlink "github.com/ipld/go-ipld-prime/linking/cid"
	"github.com/ipld/go-ipld-prime/node/basicnode"
	mh "github.com/multiformats/go-multihash"
	"pgregory.net/rapid"
)

// Val is a node inside a dag-cbor block.
type Val struct {
	K    string   `json:"k"`              // int str bytes bool null link map list
	I    int64    `json:"i,omitempty"`    // int value / bool (0,1)
	S    string   `json:"s,omitempty"`    // str / bytes
	L    int      `json:"l,omitempty"`    // link: index of target block (< own index)
	Keys []string `json:"keys,omitempty"` // map keys
	Vals []*Val   `json:"vals,omitempty"` // map / list children
}

// Block is either raw bytes or a dag-cbor node.
type Block struct {
	Raw  bool   `json:"raw,omitempty"`
	Data string `json:"data,omitempty"` // raw payload
	Node *Val   `json:"node,omitempty"`
}

// DAG: block k may link only to blocks < k; the root is the last block.
type DAG struct {
	Blocks []Block `json:"blocks"`
}

// Built is the materialised DAG.
type Built struct {
	Cids  []cid.Cid          // per spec block (duplicates possible when content coincides)
	Data  map[cid.Cid][]byte // distinct blocks
	Root  cid.Cid
	Order []cid.Cid // distinct cids in spec order
}

var rawPrefix = cid.Prefix{Version: 1, Codec: cid.Raw, MhType: mh.SHA2_256, MhLength: 32}
var cborPrefix = cid.Prefix{Version: 1, Codec: cid.DagCBOR, MhType: mh.SHA2_256, MhLength: 32}

func (v *Val) assemble(na datamodel.NodeAssembler, cids []cid.Cid) error {
	switch v.K {
	case "int":
		return na.AssignInt(v.I)
	case "str":
		return na.AssignString(v.S)
	case "bytes":
		return na.AssignBytes([]byte(v.S))
	case "bool":
		return na.AssignBool(v.I != 0)
	case "null":
		return na.AssignNull()
	case "link":
		return na.AssignLink(cidlink.Link{Cid: cids[v.L]})
	case "map":
		ma, err := na.BeginMap(int64(len(v.Keys)))
		if err != nil {
			return err
		}
		for i, k := range v.Keys {
			va, err := ma.AssembleEntry(k)
			if err != nil {
				return err
			}
			if err := v.Vals[i].assemble(va, cids); err != nil {
				return err
			}
		}
		return ma.Finish()
	case "list":
		la, err := na.BeginList(int64(len(v.Vals)))
		if err != nil {
			return err
		}
		for _, c := range v.Vals {
			if err := c.assemble(la.AssembleValue(), cids); err != nil {
				return err
			}
		}
		return la.Finish()
	}
	return fmt.Errorf("bad kind %q", v.K)
}

// Build materialises the spec.
func (d DAG) Build() (*Built, error) {
	b := &Built{Data: map[cid.Cid][]byte{}}
	for i, blk := range d.Blocks {
		var data []byte
		var pref cid.Prefix
		if blk.Raw {
			data, pref = []byte(blk.Data), rawPrefix
		} else {
			nb := basicnode.Prototype.Any.NewBuilder()
			if err := blk.Node.assemble(nb, b.Cids); err != nil {
				return nil, fmt.Errorf("block %d: %w", i, err)
			}
			var buf bytes.Buffer
			if err := dagcbor.Encode(nb.Build(), &buf); err != nil {
				return nil, fmt.Errorf("block %d: %w", i, err)
			}
			data, pref = buf.Bytes(), cborPrefix
		}
		c, err := pref.Sum(data)
		if err != nil {
			return nil, err
		}
		b.Cids = append(b.Cids, c)
		if _, ok := b.Data[c]; !ok {
			b.Data[c] = data
			b.Order = append(b.Order, c)
		}
	}
	b.Root = b.Cids[len(b.Cids)-1]
	return b, nil
}

// ---------- generators ----------

var keyAlphabet = []string{"a", "b", "c", "d", "Links", "Hash", "f", "~", ">", "."}

// GenOpts tunes DAG generation.
type GenOpts struct {
	MaxBlocks int
	MaxDepth  int  // nesting of inline maps/lists
	Chainy    bool // bias towards chains (each block links to the previous)
}

func genVal(t *rapid.T, self int, depth int, o GenOpts, forceLink bool) *Val {
	if self > 0 && (forceLink || rapid.IntRange(0, 9).Draw(t, "islink") < 4) {
		// bias towards recent blocks so DAGs get deep, but allow any earlier block
		var l int
		if rapid.IntRange(0, 2).Draw(t, "near") > 0 {
			lo := self - 3
			if lo < 0 {
				lo = 0
			}
			l = rapid.IntRange(lo, self-1).Draw(t, "l")
		} else {
			l = rapid.IntRange(0, self-1).Draw(t, "l")
		}
		return &Val{K: "link", L: l}
	}
	k := rapid.IntRange(0, 9).Draw(t, "vk")
	if depth >= o.MaxDepth && k >= 6 {
		k = k % 6
	}
	switch {
	case k < 2:
		return &Val{K: "int", I: int64(rapid.IntRange(-3, 300).Draw(t, "i"))}
	case k < 4:
		return &Val{K: "str", S: rapid.SampledFrom([]string{"", "x", "hello", "a", "Links"}).Draw(t, "s")}
	case k == 4:
		return &Val{K: "bytes", S: rapid.SampledFrom([]string{"", "\x00\x01", "bytes!"}).Draw(t, "b")}
	case k == 5:
		if rapid.Bool().Draw(t, "nullorbool") {
			return &Val{K: "null"}
		}
		return &Val{K: "bool", I: int64(rapid.IntRange(0, 1).Draw(t, "bv"))}
	case k < 8:
		return genMap(t, self, depth+1, o, false)
	default:
		n := rapid.IntRange(0, 3).Draw(t, "ln")
		v := &Val{K: "list"}
		for i := 0; i < n; i++ {
			v.Vals = append(v.Vals, genVal(t, self, depth+1, o, false))
		}
		return v
	}
}

func genMap(t *rapid.T, self int, depth int, o GenOpts, needLink bool) *Val {
	n := rapid.IntRange(0, 4).Draw(t, "mn")
	if needLink && n == 0 {
		n = 1
	}
	v := &Val{K: "map"}
	seen := map[string]bool{}
	for i := 0; i < n; i++ {
		k := rapid.SampledFrom(keyAlphabet).Draw(t, "key")
		if seen[k] {
			continue
		}
		seen[k] = true
		v.Keys = append(v.Keys, k)
		v.Vals = append(v.Vals, genVal(t, self, depth, o, needLink && i == 0))
	}
	return v
}

func genTwin(t *rapid.T, self int) *Val {
	la := rapid.IntRange(0, self-1).Draw(t, "twin-a")
	lb := rapid.IntRange(0, self-1).Draw(t, "twin-b")
	inner := func(l int) *Val {
		if rapid.Bool().Draw(t, "twin-inner-list") {
			return &Val{K: "list", Vals: []*Val{{K: "link", L: l}}}
		}
		return &Val{K: "map", Keys: []string{rapid.SampledFrom(keyAlphabet).Draw(t, "twin-ik")}, Vals: []*Val{{K: "link", L: l}}}
	}
	var c1, c2 *Val
	if rapid.Bool().Draw(t, "twin-list") {
		pad := rapid.IntRange(0, 2).Draw(t, "twin-pad")
		c1, c2 = &Val{K: "list"}, &Val{K: "list"}
		for k := 0; k < pad; k++ {
			c1.Vals = append(c1.Vals, &Val{K: "int", I: int64(k)})
			c2.Vals = append(c2.Vals, &Val{K: "str", S: "x"})
		}
		c1.Vals = append(c1.Vals, &Val{K: "link", L: la})
		c2.Vals = append(c2.Vals, inner(lb))
	} else {
		k := rapid.SampledFrom(keyAlphabet).Draw(t, "twin-k")
		c1 = &Val{K: "map", Keys: []string{k}, Vals: []*Val{{K: "link", L: la}}}
		c2 = &Val{K: "map", Keys: []string{k}, Vals: []*Val{inner(lb)}}
	}
	if rapid.IntRange(0, 2).Draw(t, "twin-top-list") == 0 {
		return &Val{K: "list", Vals: []*Val{c1, c2}}
	}
	// dag-cbor orders map keys by length then bytes: "a" < "b"
	return &Val{K: "map", Keys: []string{"a", "b"}, Vals: []*Val{c1, c2}}
}

// GenDAG draws a DAG spec. Block 0 is always a leaf.
func GenDAG(t *rapid.T, o GenOpts) DAG {
	if o.MaxBlocks == 0 {
		o.MaxBlocks = 10
	}
	if o.MaxDepth == 0 {
		o.MaxDepth = 2
	}
	n := rapid.IntRange(1, o.MaxBlocks).Draw(t, "nblocks")
	if n < 4 && o.MaxBlocks >= 6 && rapid.IntRange(0, 3).Draw(t, "grow") > 0 {
		n += 3
	}
	var d DAG
	for i := 0; i < n; i++ {
		if i < n-1 && rapid.IntRange(0, 5).Draw(t, "raw") == 0 {
			d.Blocks = append(d.Blocks, Block{Raw: true, Data: rapid.SampledFrom([]string{"", "raw", "rawdata-2", "\xff\x00"}).Draw(t, "rawdata") + fmt.Sprint(i%3)})
			continue
		}
		var node *Val
		if i >= 2 && rapid.IntRange(0, 7).Draw(t, "twin") == 0 {
			// two sibling inline containers: the first holds a link under some key / index, the second holds,
			// under the same key / index, a deeper container with another link (the shape on which "is the
			// next load below the link the responder did not follow?" must compare whole paths)
			d.Blocks = append(d.Blocks, Block{Node: genTwin(t, i)})
			continue
		}
		if rapid.IntRange(0, 3).Draw(t, "toplist") == 0 {
			node = &Val{K: "list"}
			m := rapid.IntRange(1, 4).Draw(t, "tl")
			for j := 0; j < m; j++ {
				node.Vals = append(node.Vals, genVal(t, i, 1, o, i > 0 && j == 0))
			}
		} else {
			node = genMap(t, i, 1, o, i > 0)
		}
		d.Blocks = append(d.Blocks, Block{Node: node})
	}
	return d
}

// Split places each distinct block: bit0 = requestor has it, bit1 = responder has it.
type Split []int

// GenSplit draws a placement for n distinct blocks with a mode that includes the extremes.
func GenSplit(t *rapid.T, n int) Split {
	mode := rapid.IntRange(0, 19).Draw(t, "splitmode")
	s := make(Split, n)
	for i := range s {
		switch {
		case mode == 0: // all on responder
			s[i] = 2
		case mode == 1: // all on both
			s[i] = 3
		case mode == 2: // requestor has everything
			s[i] = 1
		case mode < 7: // mostly responder, some holes, some requestor-only
			s[i] = rapid.SampledFrom([]int{2, 2, 2, 3, 1, 1, 0}).Draw(t, "place")
		case mode < 11: // the two sides complement each other
			s[i] = rapid.SampledFrom([]int{1, 2, 1, 2, 3}).Draw(t, "place")
		case mode < 14: // requestor holds the blocks near the root (a local prefix), responder the rest
			if i >= n-1-n/3 {
				s[i] = rapid.SampledFrom([]int{1, 3, 1, 2}).Draw(t, "place")
			} else {
				s[i] = rapid.SampledFrom([]int{2, 2, 2, 0, 1}).Draw(t, "place")
			}
		default:
			s[i] = rapid.IntRange(0, 3).Draw(t, "place")
		}
	}
	return s
}

// Stores returns the requestor's and the responder's initial block sets.
func (b *Built) Stores(s Split) (req, resp map[cid.Cid][]byte) {
	req, resp = map[cid.Cid][]byte{}, map[cid.Cid][]byte{}
	for i, c := range b.Order {
		p := 2
		if i < len(s) {
			p = s[i]
		}
		if p&1 != 0 {
			req[c] = b.Data[c]
		}
		if p&2 != 0 {
			resp[c] = b.Data[c]
		}
	}
	return
}

func SortedCids(m map[cid.Cid][]byte) []string {
	out := make([]string, 0, len(m))
	for c := range m {
		out = append(out, c.String())
	}
	sort.Strings(out)
	return out
}

var _ = ipld.Node(nil)
var _ = qp.Map
