package dagen

import (
	"fmt"

	"github.com/ipld/go-ipld-prime"
	"github.com/ipld/go-ipld-prime/codec/dagcbor"
	"github.com/ipld/go-ipld-prime/node/basicnode"
	"github.com/ipld/go-ipld-prime/traversal/selector"
	"github.com/ipld/go-ipld-prime/traversal/selector/builder"
	"pgregory.net/rapid"
)

// Sel is a selector AST.
type Sel struct {
	K      string   `json:"k"` // match all fields index range union rec edge interp
	Fields []string `json:"fields,omitempty"`
	Subs   []*Sel   `json:"subs,omitempty"`
	I      int64    `json:"i,omitempty"`
	J      int64    `json:"j,omitempty"`
	Limit  int64    `json:"limit,omitempty"` // rec: depth; -1 = none
	ADL    string   `json:"adl,omitempty"`
}

var ssb = builder.NewSelectorSpecBuilder(basicnode.Prototype.Any)

func (s *Sel) spec() builder.SelectorSpec {
	switch s.K {
	case "match":
		return ssb.Matcher()
	case "all":
		return ssb.ExploreAll(s.Subs[0].spec())
	case "fields":
		return ssb.ExploreFields(func(b builder.ExploreFieldsSpecBuilder) {
			for i, f := range s.Fields {
				b.Insert(f, s.Subs[i].spec())
			}
		})
	case "index":
		return ssb.ExploreIndex(s.I, s.Subs[0].spec())
	case "range":
		return ssb.ExploreRange(s.I, s.J, s.Subs[0].spec())
	case "union":
		m := make([]builder.SelectorSpec, len(s.Subs))
		for i, x := range s.Subs {
			m[i] = x.spec()
		}
		return ssb.ExploreUnion(m...)
	case "rec":
		lim := selector.RecursionLimitNone()
		if s.Limit >= 0 {
			lim = selector.RecursionLimitDepth(s.Limit)
		}
		return ssb.ExploreRecursive(lim, s.Subs[0].spec())
	case "edge":
		return ssb.ExploreRecursiveEdge()
	case "interp":
		return ssb.ExploreInterpretAs(s.ADL, s.Subs[0].spec())
	}
	panic("bad selector kind " + s.K)
}

// Node renders the selector spec node.
func (s *Sel) Node() ipld.Node { return s.spec().Node() }

func (s *Sel) String() string {
	switch s.K {
	case "match":
		return "."
	case "edge":
		return "@"
	case "all":
		return "*(" + s.Subs[0].String() + ")"
	case "fields":
		out := "f{"
		for i, f := range s.Fields {
			out += fmt.Sprintf("%q:%s ", f, s.Subs[i])
		}
		return out + "}"
	case "index":
		return fmt.Sprintf("i%d(%s)", s.I, s.Subs[0])
	case "range":
		return fmt.Sprintf("r%d-%d(%s)", s.I, s.J, s.Subs[0])
	case "union":
		out := "|("
		for _, x := range s.Subs {
			out += x.String() + ","
		}
		return out + ")"
	case "rec":
		return fmt.Sprintf("R%d(%s)", s.Limit, s.Subs[0])
	case "interp":
		return fmt.Sprintf("~%s(%s)", s.ADL, s.Subs[0])
	}
	return "?"
}

// WellFormed reports whether ipld-prime accepts the selector.
func (s *Sel) WellFormed() bool {
	defer func() { recover() }()
	_, err := selector.ParseSelector(s.Node())
	return err == nil
}

// Common traversal selectors.
func RecAll(limit int64) *Sel {
	return &Sel{K: "rec", Limit: limit, Subs: []*Sel{{K: "all", Subs: []*Sel{{K: "edge"}}}}}
}

// GenTraversalSel draws a selector for traversal scenarios: weighted towards
// recursive explore-all, but with fields/union/index/range bodies too. Depth
// limits stay small enough that traversals terminate quickly (DAGs are acyclic).
func GenTraversalSel(t *rapid.T) *Sel {
	switch rapid.IntRange(0, 19).Draw(t, "selshape") {
	case 0, 1, 2, 3, 6, 7, 8, 9, 10:
		return RecAll(int64(rapid.SampledFrom([]int{-1, 1, 2, 3, 5, 20}).Draw(t, "lim")))
	case 4:
		return &Sel{K: "match"}
	case 5:
		return &Sel{K: "all", Subs: []*Sel{{K: "all", Subs: []*Sel{{K: "match"}}}}}
	default:
		lim := int64(rapid.SampledFrom([]int{-1, 2, 4, 20}).Draw(t, "lim"))
		return &Sel{K: "rec", Limit: lim, Subs: []*Sel{genBody(t, 0)}}
	}
}

// genBody: a recursive body that contains at least one edge.
func genBody(t *rapid.T, depth int) *Sel {
	k := rapid.IntRange(0, 6).Draw(t, "bodyk")
	if depth >= 2 {
		k = 0
	}
	switch k {
	case 0, 1:
		return &Sel{K: "all", Subs: []*Sel{{K: "edge"}}}
	case 2:
		n := rapid.IntRange(1, 3).Draw(t, "nf")
		s := &Sel{K: "fields"}
		seen := map[string]bool{}
		for i := 0; i < n; i++ {
			f := rapid.SampledFrom(keyAlphabet).Draw(t, "f")
			if seen[f] {
				continue
			}
			seen[f] = true
			s.Fields = append(s.Fields, f)
			if i == 0 {
				s.Subs = append(s.Subs, edgeOr(t, depth))
			} else {
				s.Subs = append(s.Subs, leafOrEdge(t))
			}
		}
		return s
	case 3:
		return &Sel{K: "union", Subs: []*Sel{genBody(t, depth+1), leafOrBody(t, depth+1)}}
	case 4:
		return &Sel{K: "index", I: int64(rapid.IntRange(0, 2).Draw(t, "ix")), Subs: []*Sel{edgeOr(t, depth)}}
	case 5:
		a := int64(rapid.IntRange(0, 2).Draw(t, "ra"))
		return &Sel{K: "range", I: a, J: a + int64(rapid.IntRange(1, 3).Draw(t, "rb")), Subs: []*Sel{edgeOr(t, depth)}}
	default:
		return &Sel{K: "all", Subs: []*Sel{{K: "all", Subs: []*Sel{{K: "edge"}}}}}
	}
}

func edgeOr(t *rapid.T, depth int) *Sel {
	if depth < 2 && rapid.IntRange(0, 3).Draw(t, "nest") == 0 {
		return genBody(t, depth+1)
	}
	return &Sel{K: "edge"}
}
func leafOrEdge(t *rapid.T) *Sel {
	if rapid.Bool().Draw(t, "leaf") {
		return &Sel{K: "match"}
	}
	return &Sel{K: "edge"}
}
func leafOrBody(t *rapid.T, depth int) *Sel {
	if rapid.Bool().Draw(t, "leafb") {
		return &Sel{K: "match"}
	}
	return genBody(t, depth)
}

// Canonical returns the selector node as it decodes from its dag-cbor wire
// form (map keys in canonical order) -- the form a responder traverses with.
func Canonical(n ipld.Node) ipld.Node {
	b, err := ipld.Encode(n, dagcbor.Encode)
	if err != nil {
		return n
	}
	out, err := ipld.Decode(b, dagcbor.Decode)
	if err != nil {
		return n
	}
	return out
}
