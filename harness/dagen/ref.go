package dagen

import (
	"bytes"
	"errors"
	"io"

	"github.com/ipfs/go-cid"
	"github.com/ipld/go-ipld-prime"
	"github.com/ipld/go-ipld-prime/codec/dagjson"
	_ "github.com/ipld/go-ipld-prime/codec/raw"
	"github.com/ipld/go-ipld-prime/datamodel"
	"github.com/ipld/go-ipld-prime/linking"
	cidlink "github.com/ipld/go-ipld-prime/linking/cid"
	"github.com/ipld/go-ipld-prime/node/basicnode"
	"github.com/ipld/go-ipld-prime/traversal"
	"github.com/ipld/go-ipld-prime/traversal/selector"
)

// Visit is one node the traversal hands to its visitor.
type Visit struct {
	Path      string
	Node      ipld.Node
	LastPath  string
	LastLink  string
	NodePrint string // dag-json of the node (order-preserving), for comparisons across runs
}

func PrintNode(n ipld.Node) string {
	if n == nil {
		return "<nil>"
	}
	var buf bytes.Buffer
	if err := dagjson.Encode(n, &buf); err != nil {
		return "<unencodable " + n.Kind().String() + ": " + err.Error() + ">"
	}
	return buf.String()
}

func (v Visit) Key() string {
	return v.Path + " ^" + v.LastPath + "@" + v.LastLink + " = " + v.NodePrint
}

// Load is one link load attempted by the traversal.
type Load struct {
	Path    string
	Cid     cid.Cid
	Present bool
	Source  string // "local", "remote", "" when missing
}

// Ref is the outcome of a reference traversal.
type Ref struct {
	Visits  []Visit
	Loads   []Load
	Missing []Load // loads that nobody could supply (subset of Loads with Present=false)
	Err     error  // terminal traversal error (budget etc.), nil when complete
	// for the exchange reference
	FromRemote             map[cid.Cid]bool // blocks resolved from the responder
	LocalPrefix            int              // number of loads resolved locally before the first local miss
	RootMissingOnResponder bool
}

type resolver func(path datamodel.Path, c cid.Cid) (data []byte, source string, ok bool)

// ErrTooLarge ends a reference traversal that has grown past MaxRefVisits nodes or MaxRefLoads link
// loads: DAGs with shared sub-DAGs make a recursive selector visit exponentially many paths (30 blocks
// that each link twice to the next are 2^30 visits), which no check can afford and no case needs. Such
// cases are outside the generated domain: every caller skips a case whose reference has an error.
var ErrTooLarge = errors.New("dagen: reference traversal larger than the generated domain allows")

const (
	MaxRefVisits = 20000
	MaxRefLoads  = 4000
)

func walk(root cid.Cid, sel ipld.Node, res resolver, budget int64, nblocks int) *Ref {
	ref := &Ref{FromRemote: map[cid.Cid]bool{}}
	// a recursion whose body holds several recursive edges makes go-ipld-prime's selector machinery grow
	// exponentially with the depth it reaches (observed: > 60 GB on a 30-block DAG); beyond a depth of 14
	// (more than any quick-tier DAG has) such selectors are outside the generated domain
	if edges, limit := recursionShape(sel); edges >= 2 {
		depth := int64(nblocks)
		if limit >= 0 && limit < depth {
			depth = limit
		}
		if depth > 14 {
			ref.Err = ErrTooLarge
			return ref
		}
	}
	lsys := cidlink.DefaultLinkSystem()
	lsys.TrustedStorage = true
	lsys.StorageReadOpener = func(lctx linking.LinkContext, l datamodel.Link) (io.Reader, error) {
		c := l.(cidlink.Link).Cid
		if len(ref.Loads) >= MaxRefLoads {
			return nil, ErrTooLarge
		}
		data, src, ok := res(lctx.LinkPath, c)
		ld := Load{Path: lctx.LinkPath.String(), Cid: c, Present: ok, Source: src}
		ref.Loads = append(ref.Loads, ld)
		if !ok {
			ref.Missing = append(ref.Missing, ld)
			return nil, traversal.SkipMe{}
		}
		return bytes.NewReader(data), nil
	}
	parsed, err := selector.ParseSelector(sel)
	if err != nil {
		ref.Err = err
		return ref
	}
	var bud *traversal.Budget
	if budget > 0 {
		bud = &traversal.Budget{NodeBudget: 1 << 62, LinkBudget: budget}
	}
	// root load is performed the way a plain ipld-prime user would: charge the budget, then load
	if bud != nil {
		if bud.LinkBudget <= 0 {
			ref.Err = &traversal.ErrBudgetExceeded{BudgetKind: "link", Link: cidlink.Link{Cid: root}}
			return ref
		}
		bud.LinkBudget--
	}
	rootNode, err := lsys.Load(linking.LinkContext{}, cidlink.Link{Cid: root}, basicnode.Prototype.Any)
	if err != nil {
		if errors.Is(err, traversal.SkipMe{}) || isSkip(err) {
			return ref
		}
		ref.Err = err
		return ref
	}
	err = traversal.Progress{
		Cfg: &traversal.Config{
			LinkSystem:                     lsys,
			LinkTargetNodePrototypeChooser: basicnode.Chooser,
		},
		Budget: bud,
	}.WalkAdv(rootNode, parsed, func(p traversal.Progress, n datamodel.Node, r traversal.VisitReason) error {
		v := Visit{Path: p.Path.String(), Node: n, LastPath: p.LastBlock.Path.String(), NodePrint: PrintNode(n)}
		if p.LastBlock.Link != nil {
			v.LastLink = p.LastBlock.Link.String()
		}
		ref.Visits = append(ref.Visits, v)
		if len(ref.Visits) > MaxRefVisits {
			return ErrTooLarge
		}
		return nil
	})
	ref.Err = err
	return ref
}

// recursionShape counts the recursive-edge markers in a selector spec and returns the smallest recursion
// limit found (-1 = none).
func recursionShape(n datamodel.Node) (edges int, limit int64) {
	limit = -1
	var rec func(n datamodel.Node)
	rec = func(n datamodel.Node) {
		switch n.Kind() {
		case datamodel.Kind_Map:
			it := n.MapIterator()
			for !it.Done() {
				k, v, err := it.Next()
				if err != nil {
					return
				}
				ks, _ := k.AsString()
				if ks == "@" {
					edges++
				}
				if ks == "depth" {
					if d, err := v.AsInt(); err == nil && (limit < 0 || d < limit) {
						limit = d
					}
				}
				rec(v)
			}
		case datamodel.Kind_List:
			it := n.ListIterator()
			for !it.Done() {
				_, v, err := it.Next()
				if err != nil {
					return
				}
				rec(v)
			}
		}
	}
	rec(n)
	return edges, limit
}

// PathLoadedTwice reports whether the traversal loads a link at one and the same path more than once (a
// union of explorers that overlap does that).
func (r *Ref) PathLoadedTwice() bool {
	seen := map[string]bool{}
	for _, l := range r.Loads {
		if seen[l.Path] {
			return true
		}
		seen[l.Path] = true
	}
	return false
}

func isSkip(err error) bool {
	_, ok := err.(traversal.SkipMe)
	return ok
}

// RefFull traverses with every block available.
func RefFull(b *Built, sel ipld.Node) *Ref {
	return walk(b.Root, sel, func(_ datamodel.Path, c cid.Cid) ([]byte, string, bool) {
		d, ok := b.Data[c]
		return d, "local", ok
	}, 0, len(b.Data))
}

// RefStore traverses over one store (the responder's own traversal); budget 0 = none.
func RefStore(root cid.Cid, store map[cid.Cid][]byte, sel ipld.Node, budget int64) *Ref {
	return walk(root, sel, func(_ datamodel.Path, c cid.Cid) ([]byte, string, bool) {
		d, ok := store[c]
		return d, "local", ok
	}, budget, len(store))
}

// pathHasStrictPrefixIn reports whether some strict prefix of p is in set.
func pathHasStrictPrefixIn(p datamodel.Path, set map[string]bool) bool {
	segs := p.Segments()
	for i := 0; i < len(segs); i++ {
		if set[datamodel.NewPathNocopy(segs[:i]).String()] {
			return true
		}
	}
	return false
}

// RefExchange is the C02 reference: a link resolves from the requestor's
// store if present; otherwise from the responder's store iff the responder's
// own traversal reaches that path (every ancestor link on the path is in the
// responder's store); otherwise it is missing and its subtree is skipped.
func RefExchange(root cid.Cid, reqStore, respStore map[cid.Cid][]byte, sel ipld.Node) *Ref {
	unfollowed := map[string]bool{} // link paths the responder could not follow
	localMissSeen := false
	prefix := 0
	fromRemote := map[cid.Cid]bool{}
	have := make(map[cid.Cid][]byte, len(reqStore))
	for c, d := range reqStore {
		have[c] = d
	}
	ref := walk(root, sel, func(p datamodel.Path, c cid.Cid) ([]byte, string, bool) {
		reach := !pathHasStrictPrefixIn(p, unfollowed)
		_, respHas := respStore[c]
		if !respHas || !reach {
			unfollowed[p.String()] = true
		}
		if d, ok := have[c]; ok {
			if !localMissSeen {
				prefix++
			}
			return d, "local", true
		}
		localMissSeen = true
		if reach && respHas {
			fromRemote[c] = true
			have[c] = respStore[c] // blocks obtained from the responder join the requestor's store
			return respStore[c], "remote", true
		}
		return nil, "", false
	}, 0, len(reqStore)+len(respStore))
	ref.FromRemote = fromRemote
	ref.LocalPrefix = prefix
	_, has := respStore[root]
	ref.RootMissingOnResponder = !has
	return ref
}
