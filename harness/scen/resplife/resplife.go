// Package resplife is the responder-lifecycle scenario shared by C05 (every
// incoming request is retired) and C23 (reported state agrees with the work
// queue): one real responder, two scripted requestor peers, generated request
// hooks, block hooks, API calls, requestor cancels / updates, send and connect
// faults, stalled sends, storage gates and disconnects.
package resplife

import (
	"errors"
	"fmt"
	"os"
	"runtime"
	"sort"
	"strings"
	"testing"
	"time"

	"github.com/ipfs/go-cid"
	"github.com/ipld/go-ipld-prime/datamodel"
	"github.com/ipld/go-ipld-prime/node/basicnode"
	"github.com/libp2p/go-libp2p/core/peer"
	"pgregory.net/rapid"

	"github.com/ipfs/go-graphsync"
	"github.com/ipfs/go-graphsync/cidset"
	"github.com/ipfs/go-graphsync/donotsendfirstblocks"
	gsimpl "github.com/ipfs/go-graphsync/impl"
	gsmsg "github.com/ipfs/go-graphsync/message"

	"verif/harness/dagen"
	"verif/harness/scen"
	"verif/harness/sim"
)

type ReqSpec struct {
	Peer    int    `json:"peer"`     // 0 or 1
	Root    int    `json:"root"`     // index into the DAG's block order counted from the root (0 = DAG root)
	ReqHook string `json:"req_hook"` // validate novalidate error pause yield (validates, then lets other goroutines run)
	PauseAt int    `json:"pause_at"` // outgoing block hook pauses at this block index (0 = never)
	// YieldAtPause: the hook lets other goroutines run before it pauses (slow user code): whatever is
	// signalled to the traversal meanwhile arrives after its last look at its signals
	YieldAtPause bool `json:"yield_at_pause,omitempty"`
	ErrAt   int    `json:"err_at"`   // outgoing block hook errors at this block index
	ExtAt   int    `json:"ext_at"`   // outgoing block hook sends extension data at this index
	Exts    string `json:"exts"`     // request extensions: "", dncids, dedup, skip, dncids+dedup
}

type Op struct {
	K    string `json:"k"` // new cancelmsg updatemsg apipause apiunpause apicancel apiupdate disconnect release unstall
	R    int    `json:"r"`
	Ext  string `json:"ext,omitempty"`
	Fast bool   `json:"fast,omitempty"` // after the op only wait for quiescence; do not let virtual time pass
	// Burst: the next op follows without waiting at all, so that the responder finds both in its inbox together
	// (e.g. a request and its cancel, handled while a worker is just picking the request's task up)
	Burst bool `json:"burst,omitempty"`
}

type Case struct {
	DAG       dagen.DAG  `json:"dag"`
	Sel       *dagen.Sel `json:"sel"`
	Reqs      []ReqSpec  `json:"reqs"`
	Ops       []Op       `json:"ops"`
	FailAt    []int      `json:"fail_at"`  // indices of the responder's SendMsg attempts that fail
	StallAt   []int      `json:"stall_at"` // indices of SendMsg attempts that stall until an unstall op / disconnect / the end
	Retries   int        `json:"retries"`
	ConnFail  []int      `json:"conn_fail"`          // indices of connect attempts that fail
	GateAt    int        `json:"gate_at"`            // n-th storage read blocks until a release op (0 = none)
	GateAll   bool       `json:"gate_all,omitempty"` // every read from the n-th on blocks until the release (holds every traversal, not just one)
	MaxInProg int        `json:"max_inprog"`         // MaxInProgressIncomingRequests (0 = default)
	PerPeer   int        `json:"per_peer"`           // MaxInProgressIncomingRequestsPerPeer (0 = unset)
	EndCancel bool       `json:"end_cancel"`         // at the end paused responses are cancelled (else unpaused)
}

const (
	ExtUnpause = "test/unpause"
	ExtError   = "test/error"
)

// Gen draws a case. maxBlocks bounds the DAG.
func Gen(t *rapid.T, maxBlocks int) Case {
	c := Case{DAG: dagen.GenDAG(t, dagen.GenOpts{MaxBlocks: maxBlocks, MaxDepth: 2}), Sel: dagen.RecAll(int64(rapid.SampledFrom([]int{-1, 3, 10}).Draw(t, "lim")))}
	n := rapid.IntRange(1, 4).Draw(t, "nreqs")
	for i := 0; i < n; i++ {
		r := ReqSpec{Peer: rapid.IntRange(0, 1).Draw(t, "peer"), ReqHook: rapid.SampledFrom([]string{"validate", "validate", "validate", "novalidate", "error", "pause", "yield"}).Draw(t, "reqhook")}
		if rapid.IntRange(0, 3).Draw(t, "subroot") == 0 {
			r.Root = rapid.IntRange(0, 3).Draw(t, "root")
		}
		if rapid.IntRange(0, 2).Draw(t, "haspause") == 0 {
			r.PauseAt = rapid.IntRange(1, 4).Draw(t, "pauseat")
			r.YieldAtPause = rapid.IntRange(0, 3).Draw(t, "yieldatpause") == 0
		}
		if rapid.IntRange(0, 5).Draw(t, "haserr") == 0 {
			r.ErrAt = rapid.IntRange(1, 4).Draw(t, "errat")
		}
		if rapid.IntRange(0, 4).Draw(t, "hasext") == 0 {
			r.ExtAt = rapid.IntRange(1, 4).Draw(t, "extat")
		}
		if rapid.IntRange(0, 2).Draw(t, "hasexts") == 0 {
			r.Exts = rapid.SampledFrom([]string{"dncids", "dedup", "skip", "dncids+dedup"}).Draw(t, "exts")
		}
		c.Reqs = append(c.Reqs, r)
	}
	// every request gets a "new"; other ops are sprinkled around
	var ops []Op
	for i := 0; i < n; i++ {
		ops = append(ops, Op{K: "new", R: i, Fast: rapid.IntRange(0, 2).Draw(t, "newfast") == 0, Burst: rapid.IntRange(0, 4).Draw(t, "newburst") == 0})
		m := rapid.IntRange(0, 3).Draw(t, "nops")
		for j := 0; j < m; j++ {
			op := Op{K: rapid.SampledFrom([]string{"cancelmsg", "updatemsg", "apipause", "apiunpause", "apicancel", "apiupdate", "disconnect", "release", "unstall", "cancelmsg", "updatemsg"}).Draw(t, "opk"), R: rapid.IntRange(0, n-1).Draw(t, "opr")}
			op.Ext = rapid.SampledFrom([]string{ExtUnpause, ExtError, "other"}).Draw(t, "opext")
			op.Fast = rapid.IntRange(0, 2).Draw(t, "opfast") == 0
			op.Burst = rapid.IntRange(0, 5).Draw(t, "opburst") == 0
			ops = append(ops, op)
		}
	}
	if n >= 2 && rapid.IntRange(0, 5).Draw(t, "together") == 0 {
		// a request, a second one whose hook lets the workers run, and something ending the first, all in
		// the responder's inbox together: the first one's task is picked up while its end is being handled
		c.Reqs[0].ReqHook, c.Reqs[1].ReqHook, c.Reqs[1].Peer = "validate", "yield", c.Reqs[0].Peer
		end := Op{K: rapid.SampledFrom([]string{"cancelmsg", "cancelmsg", "updatemsg"}).Draw(t, "endk"), R: 0, Ext: ExtError, Fast: rapid.Bool().Draw(t, "endfast")}
		pre := []Op{{K: "new", R: 0, Burst: true}, {K: "new", R: 1, Burst: true}, end}
		ops = append(pre, ops...)
	}
	c.Ops = ops
	c.FailAt = rapid.SliceOfNDistinct(rapid.IntRange(0, 12), 0, 3, rapid.ID[int]).Draw(t, "failat")
	if rapid.IntRange(0, 3).Draw(t, "hasstall") == 0 {
		c.StallAt = rapid.SliceOfNDistinct(rapid.IntRange(0, 8), 1, 2, rapid.ID[int]).Draw(t, "stallat")
	}
	c.Retries = rapid.IntRange(1, 2).Draw(t, "retries")
	if rapid.IntRange(0, 5).Draw(t, "hasconnfail") == 0 {
		c.ConnFail = rapid.SliceOfNDistinct(rapid.IntRange(0, 6), 1, 2, rapid.ID[int]).Draw(t, "connfail")
	}
	if rapid.IntRange(0, 2).Draw(t, "hasgate") == 0 {
		c.GateAt = rapid.IntRange(1, 6).Draw(t, "gateat")
		c.GateAll = rapid.Bool().Draw(t, "gateall")
	}
	if rapid.IntRange(0, 7).Draw(t, "fail-then-pause-then-cancel") == 0 {
		// an early message of response 0 fails to send while its traversal runs on to the block at which it
		// pauses itself; the paused response is cancelled by the responder at the end
		c.Reqs[0].ReqHook, c.Reqs[0].PauseAt, c.Reqs[0].ErrAt = "validate", rapid.IntRange(2, 3).Draw(t, "fp"), 0
		c.Reqs[0].YieldAtPause = true
		c.FailAt, c.ConnFail, c.StallAt, c.Retries = []int{rapid.IntRange(0, 1).Draw(t, "ff")}, nil, nil, 1
		c.EndCancel = true
		c.Ops = append([]Op{{K: "new", R: 0}}, c.Ops...)
	}
	c.MaxInProg = rapid.SampledFrom([]int{0, 0, 1, 2}).Draw(t, "maxinprog")
	c.PerPeer = rapid.SampledFrom([]int{0, 0, 0, 1}).Draw(t, "perpeer")
	if !c.EndCancel {
		c.EndCancel = rapid.Bool().Draw(t, "endcancel")
	}
	return c
}

// Peers are the two scripted requestors.
var Peers = []peer.ID{scen.ReqID, scen.ThirdID}

func ReqID(i int) graphsync.RequestID {
	b := []byte("c05-request-id-0")
	b[15] = byte('0' + i)
	id, _ := graphsync.ParseRequestID(b)
	return id
}

// Events is what the listeners reported for one request.
type Events struct {
	Completed []graphsync.ResponseStatusCode
	Cancelled int
	NetErr    int
}

// Snapshot is the responder's self-reported state at one quiescent point.
type Snapshot struct {
	After  string // the op it follows
	Diag   []string
	States map[string]string // peer:request -> state
	Active []string
	Pend   []string
}

type Result struct {
	Skip          bool
	Panic         string
	Hung          bool
	Received      map[int]bool
	Events        map[int]*Events
	LiveHits      int // control ops / faults that hit a response still listed in PeerState
	FinalStates   []string
	FinalTasks    []string
	Protected     []string
	Allocated     uint64
	PendingAlloc  uint64
	StatsActive   uint64
	StatsPending  uint64
	WireTerminal  map[int][]graphsync.ResponseStatusCode
	Snapshots     []Snapshot
	SendFaults    int // send / connect faults that actually happened
	StalledSends  int
	Labels        map[string]bool
	CancelMsgs    map[int]int  // cancel messages the request's peer sent after the New request
	UpdOnComplete map[int]bool // the responder's SendUpdate API was called while the response was listed as completing send
	// ProbeMissing: after everything was retired a fresh, plain request from each peer must be sent every
	// block again; blocks withheld from it (per peer) reveal link-tracking state kept for retired requests
	ProbeMissing  map[string][]string
	MixedSnapshot bool // some snapshot held a paused/completing request beside a queued/running one
}

// Run executes the case.
func Run(t *testing.T, c Case) *Result {
	res := &Result{ProbeMissing: map[string][]string{}, CancelMsgs: map[int]int{}, UpdOnComplete: map[int]bool{}, Received: map[int]bool{}, Events: map[int]*Events{}, WireTerminal: map[int][]graphsync.ResponseStatusCode{}, Labels: map[string]bool{}}
	b, err := c.DAG.Build()
	if err != nil {
		res.Skip = true
		return res
	}
	if full := dagen.RefFull(b, dagen.Canonical(c.Sel.Node())); full.Err == dagen.ErrTooLarge {
		res.Skip = true // outside the generated domain: exponentially many paths (see dagen.ErrTooLarge)
		return res
	}
	idx := map[graphsync.RequestID]int{}
	for i := range c.Reqs {
		idx[ReqID(i)] = i
		res.Events[i] = &Events{}
	}
	rootOf := func(i int) cid.Cid {
		r := c.Reqs[i].Root
		if r <= 0 || len(b.Order) == 0 {
			return b.Root
		}
		// b.Order is bottom-up (the root is last)
		k := len(b.Order) - 1 - r%len(b.Order)
		return b.Order[k]
	}
	dbg := func(f string, a ...interface{}) {
		if os.Getenv("VERIF_DEBUG") != "" {
			fmt.Printf("  [resplife] "+f+"\n", a...)
		}
	}
	ro := sim.Run(t, func(w *sim.World) {
		store := sim.NewStore(b.Data, true)
		gate := make(chan struct{})
		gateOpen := false
		reads := 0
		store.ReadHook = func(cc cid.Cid, _ datamodel.Path) error {
			reads++
			if c.GateAt > 0 && (reads == c.GateAt || (c.GateAll && reads > c.GateAt)) && !gateOpen {
				<-gate
			}
			return nil
		}
		failSet, stallSet := map[int]bool{}, map[int]bool{}
		for _, i := range c.FailAt {
			failSet[i] = true
		}
		for _, i := range c.StallAt {
			stallSet[i] = true
		}
		sendN := 0
		probing := false
		w.Net.SendPolicy = func(from, to peer.ID, n int, m gsmsg.GraphSyncMessage) sim.SendOutcome {
			if from != scen.RespID || probing {
				return sim.SendOK
			}
			k := sendN
			sendN++
			if os.Getenv("VERIF_DEBUG") != "" {
				d := ""
				for _, r := range m.Responses() {
					d += fmt.Sprintf(" req%d:%s", idx[r.RequestID()], r.Status())
				}
				dbg("send #%d to %s:%s blocks=%d fail=%v stall=%v", k, to, d, len(m.Blocks()), failSet[k], stallSet[k])
			}
			if failSet[k] {
				res.SendFaults++
				return sim.SendFail
			}
			if stallSet[k] {
				res.StalledSends++
				return sim.SendBlock
			}
			return sim.SendOK
		}
		connN := 0
		connFail := map[int]bool{}
		for _, i := range c.ConnFail {
			connFail[i] = true
		}
		w.Net.ConnectPolicy = func(from, to peer.ID) error {
			if from != scen.RespID || probing {
				return nil
			}
			k := connN
			connN++
			dbg("connect #%d to %s fail=%v", k, to, connFail[k])
			if connFail[k] {
				res.SendFaults++
				return errors.New("sim: connect failed")
			}
			return nil
		}
		opts := []gsimpl.Option{gsimpl.MessageSendRetries(c.Retries)}
		if c.MaxInProg > 0 {
			opts = append(opts, gsimpl.MaxInProgressIncomingRequests(uint64(c.MaxInProg)))
		}
		if c.PerPeer > 0 {
			opts = append(opts, gsimpl.MaxInProgressIncomingRequestsPerPeer(uint64(c.PerPeer)))
		}
		rs := w.AddInstance(scen.RespID, store, opts...)
		for _, p := range Peers {
			w.AddScripted(p)
		}
		rs.GS.RegisterIncomingRequestHook(func(p peer.ID, rd graphsync.RequestData, ha graphsync.IncomingRequestHookActions) {
			i, ok := idx[rd.ID()]
			if !ok {
				ha.ValidateRequest() // the probe requests at the end
				return
			}
			switch c.Reqs[i].ReqHook {
			case "validate":
				ha.ValidateRequest()
			case "error":
				ha.ValidateRequest()
				ha.TerminateWithError(errors.New("request hook says no"))
			case "pause":
				ha.ValidateRequest()
				ha.PauseResponse()
			case "yield":
				ha.ValidateRequest()
				for k := 0; k < 200; k++ {
					runtime.Gosched()
				}
			}
		})
		rs.GS.RegisterOutgoingBlockHook(func(p peer.ID, rd graphsync.RequestData, bd graphsync.BlockData, ha graphsync.OutgoingBlockHookActions) {
			i, ok := idx[rd.ID()]
			if !ok {
				return
			}
			if int(bd.Index()) == c.Reqs[i].ExtAt {
				ha.SendExtensionData(graphsync.ExtensionData{Name: "test/blockext", Data: basicnode.NewString("hello")})
			}
			if int(bd.Index()) == c.Reqs[i].ErrAt {
				ha.TerminateWithError(errors.New("block hook says no"))
			}
			if int(bd.Index()) == c.Reqs[i].PauseAt {
				if c.Reqs[i].YieldAtPause {
					for k := 0; k < 200; k++ {
						runtime.Gosched()
					}
				}
				ha.PauseResponse()
			}
		})
		rs.GS.RegisterRequestUpdatedHook(func(p peer.ID, rd graphsync.RequestData, upd graphsync.RequestData, ha graphsync.RequestUpdatedHookActions) {
			if _, ok := upd.Extension(ExtUnpause); ok {
				ha.UnpauseResponse()
			}
			if _, ok := upd.Extension(ExtError); ok {
				ha.TerminateWithError(errors.New("update hook says no"))
			}
		})
		rs.GS.RegisterCompletedResponseListener(func(p peer.ID, rd graphsync.RequestData, st graphsync.ResponseStatusCode) {
			if i, ok := idx[rd.ID()]; ok {
				dbg("listener: completed req%d %s", i, st)
				res.Events[i].Completed = append(res.Events[i].Completed, st)
			}
		})
		rs.GS.RegisterRequestorCancelledListener(func(p peer.ID, rd graphsync.RequestData) {
			if i, ok := idx[rd.ID()]; ok {
				dbg("listener: requestor-cancelled req%d", i)
				res.Events[i].Cancelled++
			}
		})
		rs.GS.RegisterNetworkErrorListener(func(p peer.ID, rd graphsync.RequestData, err error) {
			if i, ok := idx[rd.ID()]; ok {
				dbg("listener: network-error req%d: %v", i, err)
				res.Events[i].NetErr++
			}
		})

		burst := false
		settle := func(fast bool) {
			if burst {
				return
			}
			if fast {
				w.Wait()
				return
			}
			w.Quiesce()
		}
		snapshot := func(after string) {
			s := Snapshot{After: after, States: map[string]string{}}
			idle, busy := false, false
			for _, p := range Peers {
				ps := rs.Impl.PeerState(p).IncomingState
				for _, d := range diagnostics(ps) {
					s.Diag = append(s.Diag, string(p)+": "+d)
				}
				for id, st := range ps.RequestStates {
					s.States[fmt.Sprintf("%s:%d", p, idx[id])] = st.String()
					if st == graphsync.Paused || st == graphsync.CompletingSend {
						idle = true
					} else {
						busy = true
					}
				}
				for _, id := range ps.TaskQueueState.Active {
					s.Active = append(s.Active, fmt.Sprintf("%s:%d", p, idx[id]))
				}
				for _, id := range ps.TaskQueueState.Pending {
					s.Pend = append(s.Pend, fmt.Sprintf("%s:%d", p, idx[id]))
				}
			}
			if idle && busy {
				res.MixedSnapshot = true
			}
			sort.Strings(s.Diag)
			res.Snapshots = append(res.Snapshots, s)
		}
		send := func(from peer.ID, q gsmsg.GraphSyncRequest, fast bool) {
			w.Net.Connect(from, scen.RespID) // a peer that sends is connected; the notifee tells the responder
			if err := w.Net.Inject(from, scen.RespID, gsmsg.NewMessage(map[graphsync.RequestID]gsmsg.GraphSyncRequest{q.ID(): q}, nil, nil)); err != nil {
				panic(err)
			}
			w.Net.Deliver(from, scen.RespID)
			settle(fast)
		}
		isLive := func(i int) bool {
			_, ok := rs.Impl.PeerState(Peers[c.Reqs[i].Peer]).IncomingState.RequestStates[ReqID(i)]
			return ok
		}
		for _, op := range c.Ops {
			i := op.R % len(c.Reqs)
			id := ReqID(i)
			p := Peers[c.Reqs[i].Peer]
			if op.K != "new" && res.Received[i] && isLive(i) {
				res.LiveHits++
				res.Labels["live-"+op.K] = true
			}
			if burst {
				res.Labels["ops-arriving-together"] = true
			}
			burst = op.Burst
			dbg("op %+v", op)
			switch op.K {
			case "new":
				if res.Received[i] {
					continue
				}
				res.Received[i] = true
				var exts []graphsync.ExtensionData
				if strings.Contains(c.Reqs[i].Exts, "dncids") {
					set := cid.NewSet()
					for k, cc := range b.Order {
						if k%2 == 0 {
							set.Add(cc)
						}
					}
					exts = append(exts, graphsync.ExtensionData{Name: graphsync.ExtensionDoNotSendCIDs, Data: cidset.EncodeCidSet(set)})
				}
				if strings.Contains(c.Reqs[i].Exts, "dedup") {
					exts = append(exts, graphsync.ExtensionData{Name: graphsync.ExtensionDeDupByKey, Data: basicnode.NewString(fmt.Sprintf("key-%d", i%2))})
				}
				if strings.Contains(c.Reqs[i].Exts, "skip") {
					exts = append(exts, graphsync.ExtensionData{Name: graphsync.ExtensionsDoNotSendFirstBlocks, Data: donotsendfirstblocks.EncodeDoNotSendFirstBlocks(2)})
				}
				send(p, gsmsg.NewRequest(id, rootOf(i), c.Sel.Node(), graphsync.Priority(i), exts...), op.Fast)
			case "cancelmsg":
				if res.Received[i] {
					res.CancelMsgs[i]++
					send(p, gsmsg.NewCancelRequest(id), op.Fast)
				}
			case "updatemsg":
				if res.Received[i] {
					send(p, gsmsg.NewUpdateRequest(id, graphsync.ExtensionData{Name: graphsync.ExtensionName(op.Ext), Data: basicnode.NewString("x")}), op.Fast)
				}
			case "apipause":
				_ = rs.GS.Pause(w.Ctx, id)
				settle(op.Fast)
			case "apiunpause":
				_ = rs.GS.Unpause(w.Ctx, id)
				settle(op.Fast)
			case "apicancel":
				_ = rs.GS.Cancel(w.Ctx, id)
				settle(op.Fast)
			case "apiupdate":
				if st, ok := rs.Impl.PeerState(p).IncomingState.RequestStates[id]; ok && st == graphsync.CompletingSend {
					res.UpdOnComplete[i] = true
				}
				_ = rs.GS.SendUpdate(w.Ctx, id, graphsync.ExtensionData{Name: "test/apiupdate", Data: basicnode.NewString("u")})
				settle(op.Fast)
			case "disconnect":
				w.Net.Disconnect(scen.RespID, p)
				settle(op.Fast)
			case "release":
				if !gateOpen {
					gateOpen = true
					close(gate)
				}
				settle(op.Fast)
			case "unstall":
				w.Net.ReleaseBlocked()
				settle(op.Fast)
			}
			if !burst {
				w.Wait() // (an op that did nothing does not settle what a burst before it left in flight)
				snapshot(op.K)
			}
		}
		burst = false
		settle(true)
		if !gateOpen {
			gateOpen = true
			close(gate)
		}
		w.Net.ReleaseBlocked()
		w.Quiesce()
		snapshot("open-gates")
		// premise: every paused response is eventually unpaused or cancelled
		for round := 0; round < 8; round++ {
			any := false
			for i := range c.Reqs {
				st, ok := rs.Impl.PeerState(Peers[c.Reqs[i].Peer]).IncomingState.RequestStates[ReqID(i)]
				if ok && st == graphsync.Paused {
					any = true
					if c.EndCancel {
						_ = rs.GS.Cancel(w.Ctx, ReqID(i))
					} else {
						_ = rs.GS.Unpause(w.Ctx, ReqID(i))
					}
					w.Net.ReleaseBlocked()
					w.Quiesce()
					w.Net.ReleaseBlocked()
					w.Quiesce()
					snapshot("end-resume")
				}
			}
			if !any {
				break
			}
		}
		w.Net.ReleaseBlocked()
		w.Quiesce()
		time.Sleep(time.Minute)
		w.Net.ReleaseBlocked()
		w.Quiesce()
		snapshot("final")
		for _, p := range Peers {
			ps := rs.Impl.PeerState(p).IncomingState
			for id, st := range ps.RequestStates {
				res.FinalStates = append(res.FinalStates, fmt.Sprintf("%s:%d=%s", p, idx[id], st))
			}
			for _, id := range ps.TaskQueueState.Active {
				res.FinalTasks = append(res.FinalTasks, fmt.Sprintf("%s:active:%d", p, idx[id]))
			}
			for _, id := range ps.TaskQueueState.Pending {
				res.FinalTasks = append(res.FinalTasks, fmt.Sprintf("%s:pending:%d", p, idx[id]))
			}
		}
		sort.Strings(res.FinalStates)
		sort.Strings(res.FinalTasks)
		res.Protected = rs.End.CM.Protected()
		st := rs.GS.Stats()
		res.Allocated = st.OutgoingResponses.TotalAllocatedAllPeers
		res.PendingAlloc = st.OutgoingResponses.TotalPendingAllocations
		res.StatsActive = st.IncomingRequests.Active
		res.StatsPending = st.IncomingRequests.Pending
		// probe: a fresh, plain request from each peer is sent every block it reaches
		if len(res.FinalStates) == 0 {
			probing = true
			full := dagen.RefFull(b, dagen.Canonical(c.Sel.Node()))
			for pi, p := range Peers {
				from := len(w.Net.SentSince(0))
				pid, _ := graphsync.ParseRequestID([]byte(fmt.Sprintf("c05-probe-req--%d", pi)))
				send(p, gsmsg.NewRequest(pid, b.Root, c.Sel.Node(), 0), false)
				got := map[cid.Cid]bool{}
				for _, e := range w.Net.SentSince(from) {
					if e.From == scen.RespID && e.To == p {
						for _, blk := range e.Msg.Blocks() {
							got[blk.Cid()] = true
						}
					}
				}
				for _, l := range full.Loads {
					if l.Present && !got[l.Cid] {
						got[l.Cid] = true
						res.ProbeMissing[string(p)] = append(res.ProbeMissing[string(p)], l.Cid.String())
					}
				}
			}
		}
		if os.Getenv("VERIF_TRACE") != "" {
			fmt.Println(w.Net.Transcript())
			for _, s := range res.Snapshots {
				fmt.Printf("after %-10s states=%v active=%v pending=%v diag=%v\n", s.After, s.States, s.Active, s.Pend, s.Diag)
			}
		}
		for _, e := range w.Net.Sent {
			if e.From != scen.RespID {
				continue
			}
			for _, r := range e.Msg.Responses() {
				if r.Status().IsTerminal() {
					if i, ok := idx[r.RequestID()]; ok {
						res.WireTerminal[i] = append(res.WireTerminal[i], r.Status())
					}
				}
			}
		}
	})
	res.Panic, res.Hung = ro.Panic, ro.Hung
	return res
}

// diagnostics is peerstate.PeerState.Diagnostics rendered as sorted strings.
func diagnostics(ps interface {
	Diagnostics() map[graphsync.RequestID][]string
}) []string {
	var out []string
	for id, ds := range ps.Diagnostics() {
		for _, d := range ds {
			out = append(out, id.String()[:8]+": "+d)
		}
	}
	sort.Strings(out)
	return out
}
