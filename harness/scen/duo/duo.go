// Package duo is the two-instance, many-request scenario shared by C06
// (pause / resume does not change the result), C20 (concurrent requests each
// retrieve completely), C21 (work limits), and C23 (reported state agrees with
// the work queue): a real requestor and a real responder exchange 1-4 requests
// over one generated DAG while a generated operation list owns every boundary
// event: which in-flight message is delivered next, API pause / unpause /
// cancel on either side, hook-triggered pauses at chosen blocks, per-request
// storage gates on either side (relative traversal speeds) and virtual time.
package duo

import (
	"errors"
	"fmt"
	"io"
	"os"
	"runtime"
	"sort"
	"strings"
	"sync"
	"testing"
	"time"

	blocks "github.com/ipfs/go-block-format"
	"github.com/ipfs/go-cid"
	"github.com/ipld/go-ipld-prime"
	cidlink "github.com/ipld/go-ipld-prime/linking/cid"
	"github.com/ipld/go-ipld-prime/node/basicnode"
	"github.com/libp2p/go-libp2p/core/peer"
	"pgregory.net/rapid"

	"github.com/ipfs/go-graphsync"
	"github.com/ipfs/go-graphsync/cidset"
	gsimpl "github.com/ipfs/go-graphsync/impl"
	gsmsg "github.com/ipfs/go-graphsync/message"

	"verif/harness/dagen"
	"verif/harness/scen"
	"verif/harness/sim"
)

type ReqSpec struct {
	Root        int `json:"root"`          // 0 = DAG root, n = n-th block below it in build order
	ReqPauseAt  int `json:"req_pause_at"`  // requestor's incoming-block hook pauses the request at its n-th block (0 = never)
	RespPauseAt int `json:"resp_pause_at"` // responder's outgoing-block hook pauses the response at block index n
	RespGateAt  int `json:"resp_gate_at"`  // the responder's n-th storage read for this request blocks until an "sgate" op
	ReqGateAt   int `json:"req_gate_at"`   // the requestor's executor for this request stalls in its block hook after the n-th block until a "qgate" op
	ReqWGateAt  int `json:"req_wgate_at"`  // a second stall point of the same kind
	Prio        int `json:"prio"`
	DedupKey    int `json:"dedup_key"` // 0 = none, else dedup-by-key "k<n>" and an own requestor store
	// OutHookYield: the requestor's outgoing-request hook for this request is slow (it yields to other
	// goroutines), which keeps the request manager's loop busy while other things queue up behind it
	OutHookYield bool `json:"out_hook_yield,omitempty"`
	// DNS (keyed requests only): blocks (indices into the build order) the request lists as do-not-send; the
	// request's own store holds them from the start, as a caller that lists them would
	DNS []int `json:"dns,omitempty"`
}

type Op struct {
	K string `json:"k"` // start deliver qpause qunpause qcancel spause sunpause scancel sgate qgate tick intrude behind qrace
	R int    `json:"r"`
	N int    `json:"n,omitempty"`
	X *Intr  `json:"x,omitempty"` // intrude: what the third peer sends to the requestor (delivered at once)
}

// Intr is one message from a third peer carrying responses under live request ids.
type Intr struct {
	Reqs    []int  `json:"reqs"`   // request indices whose ids are used (those already issued)
	Status  int    `json:"status"` // response status code
	Ext     string `json:"ext"`    // "", trigger/error, trigger/update, other
	NMeta   int    `json:"n_meta"` // metadata entries (links of the DAG, action present)
	NBlocks int    `json:"n_blocks"`
}

const (
	ExtTriggerError  = "trigger/error"
	ExtTriggerUpdate = "trigger/update"
	ExtFromThird     = "verif/from-third-peer" // carried by every response the third peer sends
)

type Case struct {
	DAG     dagen.DAG   `json:"dag"`
	Sel     *dagen.Sel  `json:"sel"`
	Split   dagen.Split `json:"split"`
	Reqs    []ReqSpec   `json:"reqs"`
	Ops     []Op        `json:"ops"`
	MaxOut  int         `json:"max_out"`  // MaxInProgressOutgoingRequests (0 = default)
	MaxIn   int         `json:"max_in"`   // MaxInProgressIncomingRequests
	PerPeer int         `json:"per_peer"` // MaxInProgressIncomingRequestsPerPeer
}

const extIndex = graphsync.ExtensionName("duo/index")

// Snapshot of both sides' self-reported state at one quiescent point.
type Snapshot struct {
	After                                          string
	ReqDiag                                        []string
	RespDiag                                       []string
	ReqStates                                      map[int]string
	RespStates                                     map[int]string
	ReqActive, ReqPending, RespActive, RespPending []int
	HeldReq, HeldResp                              int // executions the harness itself is holding inside a gate right now (independent of what the node reports)
}

// Event is an entry of the ordered log the judges reason over.
type Event struct {
	K    string // op kinds, "wire" (message handed to the network), "resp-paused-status" ...
	R    int
	Seq  int // wire sequence number for "wire"
	From string
	Info string
}

type ReqOutcome struct {
	Started    bool
	Visits     []dagen.Visit
	Errs       []error
	RespClosed bool
	ErrClosed  bool
	ID         graphsync.RequestID
	HasID      bool
}

type Result struct {
	Skip              bool
	Panic             string
	Hung              bool
	B                 *dagen.Built
	Reqs              []*ReqOutcome
	Store             map[cid.Cid][]byte         // requestor's shared store at the end
	KeyStores         map[int]map[cid.Cid][]byte // per dedup-key stores
	Snapshots         []Snapshot
	Events            []Event
	Sent              []*sim.Envelope
	FinalStats        [2]graphsync.Stats
	Labels            map[string]bool
	MaxRunReq         int // most requestor executions in progress at once (processing listener .. end)
	MaxRunResp        int
	MaxRunRespPerPeer int
	APIHung           []string // API calls that never returned
	// RerequestWhileActive[i]: a re-sent New request for i (same id, after a requestor pause) was
	// delivered while the responder still had the earlier response's task active
	// RespHookPeers / BlockHookPeers: how often the requestor's response / block hooks were invoked, per peer argument
	RespHookPeers  map[string]int
	BlockHookPeers map[string]int
	// ThirdHookLive: hook invocations with the third peer as sender for a request that the requestor still
	// listed when the intruding message was delivered (a response for a request that has ended reaches the
	// hooks whoever sends it, and cannot affect anything)
	ThirdHookLive        int
	ThirdAsGenuine       int // response-hook calls for a live request that were handed the third peer's response under another sender
	BlockHookSawThird    int // block hook calls whose response data carried the third peer's marker extension
	SentToThirdLive      int // messages the requestor sent to the third peer in reaction to such a message
	Intrusions           int // intruding messages actually delivered
	IntrudedLive         int // ... while one of the targeted requests was still listed by the requestor
	IntrudedPaused       int // ... while one of them was listed as paused
	RerequestWhileActive map[int]bool
	// CrossDedup[i]: a response for i listed a link as present without its bytes although the bytes had
	// only ever been transmitted for another request (the responder's cross-request de-duplication)
	CrossDedup map[int]bool
	// AtRisk[i]: ... and when that message was delivered the requestor's store for i did not hold the block yet
	AtRisk map[int]bool
}

// Roots resolves a request's root cid.
func RootOf(b *dagen.Built, r int) cid.Cid {
	if r <= 0 || len(b.Order) == 0 {
		return b.Root
	}
	return b.Order[len(b.Order)-1-r%len(b.Order)]
}

type gate struct {
	at      int
	n       int
	open    bool
	waiting bool
	ch      chan struct{}
}

func newGate(at int) *gate { return &gate{at: at, ch: make(chan struct{})} }
func (g *gate) pass() {
	g.n++
	if g.at > 0 && g.n == g.at && !g.open {
		g.waiting = true
		<-g.ch
		g.waiting = false
	}
}
func (g *gate) release() {
	if !g.open {
		g.open = true
		close(g.ch)
	}
}

func gated(ls ipld.LinkSystem, g *gate) ipld.LinkSystem {
	orig := ls.StorageReadOpener
	ls.StorageReadOpener = func(lc ipld.LinkContext, l ipld.Link) (io.Reader, error) {
		g.pass()
		return orig(lc, l)
	}
	return ls
}

// Stores optionally replaces the stores derived from Case.Split.
type Stores struct {
	Req, Resp map[cid.Cid][]byte
}

// Run executes the case.
func Run(t *testing.T, c Case) *Result { return RunWith(t, c, nil) }

// Key renders what the caller saw for one request, comparably.
func (o *ReqOutcome) Key() string {
	var sb strings.Builder
	for _, v := range o.Visits {
		sb.WriteString(v.Key())
		sb.WriteString("\n")
	}
	sb.WriteString("--errs--\n")
	var es []string
	for _, e := range o.Errs {
		es = append(es, fmt.Sprintf("%T:%v", e, e))
	}
	sort.Strings(es)
	sb.WriteString(strings.Join(es, "\n"))
	fmt.Fprintf(&sb, "\n--closed-- %v %v", o.RespClosed, o.ErrClosed)
	return sb.String()
}

func RunWith(t *testing.T, c Case, st *Stores) *Result {
	res := &Result{RespHookPeers: map[string]int{}, BlockHookPeers: map[string]int{}, CrossDedup: map[int]bool{}, AtRisk: map[int]bool{}, RerequestWhileActive: map[int]bool{}, Labels: map[string]bool{}, KeyStores: map[int]map[cid.Cid][]byte{}}
	if !c.Sel.WellFormed() {
		res.Skip = true
		return res
	}
	b, err := c.DAG.Build()
	if err != nil {
		res.Skip = true
		return res
	}
	res.B = b
	// outside the generated domain: a traversal that visits exponentially many paths (see dagen.ErrTooLarge)
	for _, r := range c.Reqs {
		b2 := *b
		b2.Root = RootOf(b, r.Root)
		if full := dagen.RefFull(&b2, dagen.Canonical(c.Sel.Node())); full.Err == dagen.ErrTooLarge {
			res.Skip = true
			return res
		}
	}
	split := append(dagen.Split(nil), c.Split...)
	for len(split) < len(b.Order) {
		split = append(split, 2)
	}
	reqStore, respStore := b.Stores(split)
	if st != nil {
		reqStore, respStore = st.Req, st.Resp
	}
	sel := c.Sel.Node()
	for range c.Reqs {
		res.Reqs = append(res.Reqs, &ReqOutcome{})
	}
	trace := os.Getenv("VERIF_TRACE") != ""
	ro := sim.Run(t, func(w *sim.World) {
		var qopts, sopts []gsimpl.Option
		if c.MaxOut > 0 {
			qopts = append(qopts, gsimpl.MaxInProgressOutgoingRequests(uint64(c.MaxOut)))
		}
		if c.MaxIn > 0 {
			sopts = append(sopts, gsimpl.MaxInProgressIncomingRequests(uint64(c.MaxIn)))
		}
		if c.PerPeer > 0 {
			sopts = append(sopts, gsimpl.MaxInProgressIncomingRequestsPerPeer(uint64(c.PerPeer)))
		}
		qs := sim.NewStore(reqStore, true)
		ss := sim.NewStore(respStore, true)
		qgates, sgates, wgates := make([]*gate, len(c.Reqs)), make([]*gate, len(c.Reqs)), make([]*gate, len(c.Reqs))
		for i, r := range c.Reqs {
			qgates[i], sgates[i], wgates[i] = newGate(r.ReqGateAt), newGate(r.RespGateAt), newGate(r.ReqWGateAt)
		}
		rq := w.AddInstance(scen.ReqID, qs, qopts...)
		rs := w.AddInstance(scen.RespID, ss, sopts...)
		keyStores := map[int]*sim.Store{}
		for i, r := range c.Reqs {
			if r.DedupKey > 0 && keyStores[r.DedupKey] == nil {
				// requests with a dedup key use an own store, selected as a persistence option (which is what
				// makes the requestor add the dedup-by-key extension)
				keyStores[r.DedupKey] = sim.NewStore(reqStore, true)
				if err := rq.GS.RegisterPersistenceOption(fmt.Sprintf("k%d", r.DedupKey), keyStores[r.DedupKey].LinkSystem()); err != nil {
					panic(err)
				}
			}
			if r.DedupKey > 0 {
				for _, k := range r.DNS {
					cc := b.Order[k%len(b.Order)]
					keyStores[r.DedupKey].Put(cc, b.Data[cc])
				}
			}
			if err := rs.GS.RegisterPersistenceOption(fmt.Sprintf("s%d", i), gated(ss.LinkSystem(), sgates[i])); err != nil {
				panic(err)
			}
		}
		idxOf := func(rd graphsync.RequestData) (int, bool) {
			d, ok := rd.Extension(extIndex)
			if !ok {
				return 0, false
			}
			n, err := d.AsInt()
			if err != nil {
				return 0, false
			}
			return int(n), true
		}
		var mu sync.Mutex
		byIDm := map[graphsync.RequestID]int{}
		setID := func(id graphsync.RequestID, i int) { mu.Lock(); byIDm[id] = i; mu.Unlock() }
		getID := func(id graphsync.RequestID) (int, bool) {
			mu.Lock()
			defer mu.Unlock()
			i, ok := byIDm[id]
			return i, ok
		}
		wireSeen := 0
		// respLive: the requests the responder listed at the end of the last completed step, plus those whose
		// New request reached it since; liveAtSend remembers it for every message the responder sends
		respLive := map[int]bool{}
		liveAtSend := map[int]map[int]bool{}
		noteWire := func() {
			mu.Lock()
			for _, e := range w.Net.SentSince(wireSeen) {
				wireSeen++
				if e.From == scen.RespID {
					cp := map[int]bool{}
					for k := range respLive {
						cp[k] = true
					}
					liveAtSend[e.Seq] = cp
				}
				res.Events = append(res.Events, Event{K: "wire", Seq: e.Seq, From: string(e.From), Info: sim.DescribeMsg(e.Msg)})
			}
			mu.Unlock()
		}
		logf := func(k string, r int, info string) {
			noteWire() // whatever was sent before this event precedes it in the log
			mu.Lock()
			res.Events = append(res.Events, Event{K: k, R: r, Info: info})
			mu.Unlock()
		}
		inOutHook := false
		runReq, runResp := map[int]bool{}, map[int]bool{}
		rq.GS.RegisterOutgoingRequestHook(func(p peer.ID, rd graphsync.RequestData, ha graphsync.OutgoingRequestHookActions) {
			if i, ok := idxOf(rd); ok {
				setID(rd.ID(), i)
				res.Reqs[i].ID, res.Reqs[i].HasID = rd.ID(), true
				if k := c.Reqs[i].DedupKey; k > 0 {
					ha.UsePersistenceOption(fmt.Sprintf("k%d", k))
				}
				if c.Reqs[i].OutHookYield {
					mu.Lock()
					inOutHook = true
					mu.Unlock()
					for k := 0; k < 600; k++ {
						runtime.Gosched()
					}
				}
			}
		})
		rq.GS.RegisterOutgoingRequestProcessingListener(func(p peer.ID, rd graphsync.RequestData, n int) {
			if i, ok := getID(rd.ID()); ok {
				mu.Lock()
				runReq[i] = true
				mu.Unlock()
			}
		})
		w.AddScripted(scen.ThirdID)
		intrudeLive := map[graphsync.RequestID]bool{}
		var loopGate chan struct{}
		thirdHook, thirdAsGenuine := map[graphsync.RequestID]int{}, map[graphsync.RequestID]int{}
		rq.GS.RegisterIncomingResponseHook(func(p peer.ID, rd graphsync.ResponseData, ha graphsync.IncomingResponseHookActions) {
			mu.Lock()
			res.RespHookPeers[string(p)]++
			if p == scen.ThirdID && intrudeLive[rd.RequestID()] {
				thirdHook[rd.RequestID()]++
			}
			if _, marked := rd.Extension(ExtFromThird); marked && p != scen.ThirdID && intrudeLive[rd.RequestID()] {
				// what the third peer sent is presented to the hooks as the genuine responder's
				thirdAsGenuine[rd.RequestID()]++
			}
			g := loopGate
			if p == scen.RespID && g != nil {
				loopGate = nil
			} else {
				g = nil
			}
			mu.Unlock()
			if g != nil {
				<-g // the run loop is held inside this hook (slow user code) while further messages arrive
			}
			if _, ok := rd.Extension(ExtTriggerError); ok {
				ha.TerminateWithError(errors.New("response hook refuses this response"))
			}
			if _, ok := rd.Extension(ExtTriggerUpdate); ok {
				ha.UpdateRequestWithExtensions(graphsync.ExtensionData{Name: "duo/update", Data: basicnode.NewString("from the response hook")})
			}
		})
		blocksSeen := map[int]int{}
		rq.GS.RegisterIncomingBlockHook(func(p peer.ID, rd graphsync.ResponseData, bd graphsync.BlockData, ha graphsync.IncomingBlockHookActions) {
			mu.Lock()
			res.BlockHookPeers[string(p)]++
			if _, marked := rd.Extension(ExtFromThird); marked {
				// the response data handed to a block hook is something the third peer sent
				res.BlockHookSawThird++
			}
			mu.Unlock()
			i, ok := getID(rd.RequestID())
			if !ok {
				return
			}
			mu.Lock()
			blocksSeen[i]++
			n := blocksSeen[i]
			mu.Unlock()
			// the requestor's gates hold this request's executor inside its block hook: block n is stored,
			// nothing after it is loaded until the gate opens (a slow consumer)
			if c.Reqs[i].ReqGateAt > 0 && n == c.Reqs[i].ReqGateAt {
				qgates[i].at, qgates[i].n = 1, 0
				qgates[i].pass()
			}
			if c.Reqs[i].ReqWGateAt > 0 && n == c.Reqs[i].ReqWGateAt {
				wgates[i].at, wgates[i].n = 1, 0
				wgates[i].pass()
			}
			if c.Reqs[i].ReqPauseAt > 0 && n == c.Reqs[i].ReqPauseAt {
				logf("req-hook-pause", i, fmt.Sprintf("at block %d", n))
				ha.PauseRequest()
			}
		})
		rs.GS.RegisterIncomingRequestHook(func(p peer.ID, rd graphsync.RequestData, ha graphsync.IncomingRequestHookActions) {
			ha.ValidateRequest()
			if i, ok := idxOf(rd); ok {
				setID(rd.ID(), i)
				ha.UsePersistenceOption(fmt.Sprintf("s%d", i))
			}
		})
		rs.GS.RegisterIncomingRequestProcessingListener(func(p peer.ID, rd graphsync.RequestData, n int) {
			if i, ok := getID(rd.ID()); ok {
				mu.Lock()
				runResp[i] = true
				mu.Unlock()
			}
		})
		respPaused := map[int]bool{}
		rs.GS.RegisterOutgoingBlockHook(func(p peer.ID, rd graphsync.RequestData, bd graphsync.BlockData, ha graphsync.OutgoingBlockHookActions) {
			i, ok := getID(rd.ID())
			if !ok {
				return
			}
			mu.Lock()
			already := respPaused[i]
			mu.Unlock()
			if c.Reqs[i].RespPauseAt > 0 && int(bd.Index()) == c.Reqs[i].RespPauseAt && !already {
				mu.Lock()
				respPaused[i] = true
				mu.Unlock()
				logf("resp-hook-pause", i, fmt.Sprintf("at block %d", bd.Index()))
				ha.PauseResponse()
			}
		})
		newsDelivered := map[graphsync.RequestID]int{}
		checkRerequest := func(e *sim.Envelope) {
			if e.From != scen.ReqID {
				return
			}
			for _, q := range e.Msg.Requests() {
				if q.Type() != graphsync.RequestTypeNew {
					continue
				}
				newsDelivered[q.ID()]++
				if newsDelivered[q.ID()] < 2 {
					continue
				}
				for _, a := range rs.Impl.PeerState(scen.ReqID).IncomingState.TaskQueueState.Active {
					if a == q.ID() {
						if i, ok := getID(q.ID()); ok {
							res.RerequestWhileActive[i] = true
						}
					}
				}
			}
		}
		sentFor := map[cid.Cid]map[int]bool{} // block bytes transmitted in a message that lists it for request i
		storeOf := func(i int) *sim.Store {
			if k := c.Reqs[i].DedupKey; k > 0 {
				return keyStores[k]
			}
			return qs
		}
		checkDedup := func(e *sim.Envelope) {
			if e.From != scen.RespID {
				return
			}
			inMsg := map[cid.Cid]bool{}
			for _, b := range e.Msg.Blocks() {
				inMsg[b.Cid()] = true
			}
			type ent struct {
				i int
				c cid.Cid
			}
			var listed []ent
			for _, r := range e.Msg.Responses() {
				i, ok := getID(r.RequestID())
				if !ok {
					continue
				}
				r.Metadata().Iterate(func(c cid.Cid, a graphsync.LinkAction) {
					if a == graphsync.LinkActionPresent {
						listed = append(listed, ent{i, c})
					}
				})
			}
			for _, l := range listed {
				if inMsg[l.c] {
					continue
				}
				if m := sentFor[l.c]; len(m) > 0 && !m[l.i] {
					// the known class: withheld because a request STILL IN PROGRESS at the responder, in the same
					// scope, was sent the bytes (a request the responder had retired before it built this message
					// is no reason to withhold anything)
					sameScope := false
					for j := range m {
						if c.Reqs[j].DedupKey == c.Reqs[l.i].DedupKey && (liveAtSend[e.Seq] == nil || liveAtSend[e.Seq][j]) {
							sameScope = true
						}
					}
					if !sameScope {
						continue // withheld although never sent in this request's scope: not the known class
					}
					res.CrossDedup[l.i] = true
					if !storeOf(l.i).Has(l.c) {
						res.AtRisk[l.i] = true
					}
				}
			}
			for _, l := range listed {
				if inMsg[l.c] {
					if sentFor[l.c] == nil {
						sentFor[l.c] = map[int]bool{}
					}
					sentFor[l.c][l.i] = true
				}
			}
		}
		w.OnDeliver = func(e *sim.Envelope) {
			if e.To == scen.RespID {
				noteWire() // (what the responder sent before this arrives was built without it)
				for _, q := range e.Msg.Requests() {
					if i, ok := getID(q.ID()); ok && q.Type() == graphsync.RequestTypeNew {
						mu.Lock()
						respLive[i] = true
						mu.Unlock()
					}
				}
			}
			checkRerequest(e)
			checkDedup(e)
			noteWire()
			mu.Lock()
			res.Events = append(res.Events, Event{K: "deliver", Seq: e.Seq, From: string(e.From)})
			mu.Unlock()
		}
		results := make([]*sim.ReqResult, len(c.Reqs))
		apiPending := map[string]bool{}
		apiN := 0
		api := func(name string, f func() error) {
			mu.Lock()
			apiN++
			name = fmt.Sprintf("%s#%d", name, apiN)
			apiPending[name] = true
			mu.Unlock()
			go func() {
				_ = f()
				mu.Lock()
				delete(apiPending, name)
				mu.Unlock()
			}()
		}
		states := func(ps graphsync.RequestStates) map[int]string {
			m := map[int]string{}
			for id, st := range ps {
				if i, ok := getID(id); ok {
					m[i] = st.String()
				} else {
					m[-1] = st.String()
				}
			}
			return m
		}
		ids := func(l []graphsync.RequestID) []int {
			var out []int
			for _, id := range l {
				if i, ok := getID(id); ok {
					out = append(out, i)
				} else {
					out = append(out, -1)
				}
			}
			sort.Ints(out)
			return out
		}
		diag := func(m map[graphsync.RequestID][]string) []string {
			var out []string
			for id, ds := range m {
				for _, d := range ds {
					i, _ := getID(id)
					out = append(out, strings.ReplaceAll(d, id.String(), fmt.Sprintf("#%d", i)))
				}
			}
			sort.Strings(out)
			return out
		}
		snapshot := func(after string) {
			w.Wait()
			noteWire()
			qp := rq.Impl.PeerState(scen.RespID).OutgoingState
			sp := rs.Impl.PeerState(scen.ReqID).IncomingState
			s := Snapshot{After: after, ReqDiag: diag(qp.Diagnostics()), RespDiag: diag(sp.Diagnostics()),
				ReqStates: states(qp.RequestStates), RespStates: states(sp.RequestStates),
				ReqActive: ids(qp.TaskQueueState.Active), ReqPending: ids(qp.TaskQueueState.Pending),
				RespActive: ids(sp.TaskQueueState.Active), RespPending: ids(sp.TaskQueueState.Pending)}
			for i := range c.Reqs {
				if qgates[i].waiting || wgates[i].waiting {
					s.HeldReq++
				}
				if sgates[i].waiting {
					s.HeldResp++
				}
			}
			var liveNow []int
			for id := range sp.RequestStates {
				if i, ok := getID(id); ok {
					liveNow = append(liveNow, i)
				}
			}
			mu.Lock()
			for k := range respLive {
				delete(respLive, k)
			}
			for _, i := range liveNow {
				respLive[i] = true
			}
			mu.Unlock()
			res.Snapshots = append(res.Snapshots, s)
			if n := len(s.ReqActive); n > res.MaxRunReq {
				res.MaxRunReq = n
			}
			if n := len(s.RespActive); n > res.MaxRunResp {
				res.MaxRunResp = n
			}
			if trace {
				fmt.Printf("after %-12s Q states=%v act=%v pend=%v diag=%v | S states=%v act=%v pend=%v diag=%v\n", after, s.ReqStates, s.ReqActive, s.ReqPending, s.ReqDiag, s.RespStates, s.RespActive, s.RespPending, s.RespDiag)
			}
		}
		start := func(i int) {
			if results[i] != nil {
				return
			}
			exts := []graphsync.ExtensionData{{Name: extIndex, Data: basicnode.NewInt(int64(i))}}
			if c.Reqs[i].DedupKey > 0 && len(c.Reqs[i].DNS) > 0 {
				set := cid.NewSet()
				for _, k := range c.Reqs[i].DNS {
					set.Add(b.Order[k%len(b.Order)])
				}
				exts = append(exts, graphsync.ExtensionData{Name: graphsync.ExtensionDoNotSendCIDs, Data: cidset.EncodeCidSet(set)})
				res.Labels["do-not-send-cids"] = true
			}
			results[i] = w.Request(rq, scen.RespID, cidlink.Link{Cid: RootOf(b, c.Reqs[i].Root)}, sel, exts...)
			res.Reqs[i].Started = true
		}
		for _, op := range c.Ops {
			i := op.R % len(c.Reqs)
			desc := fmt.Sprintf("%s(%d)", op.K, i)
			switch op.K {
			case "start":
				start(i)
			case "deliver":
				var pl [][2]peer.ID
				for _, l := range w.Net.PendingLinks() {
					// only the two real instances' links are scheduled by the script; whatever is addressed to the
					// third (scripted) peer is handed over at once so that it cannot shift the schedule
					if l[0] == scen.ThirdID || l[1] == scen.ThirdID {
						for w.Net.Deliver(l[0], l[1]) != nil {
						}
						continue
					}
					pl = append(pl, l)
				}
				if len(pl) == 0 {
					continue
				}
				l := pl[op.N%len(pl)]
				if pe := w.Net.Peek(l[0], l[1]); pe != nil {
					checkRerequest(pe)
					checkDedup(pe)
				}
				e := w.Net.Deliver(l[0], l[1])
				desc = fmt.Sprintf("deliver(#%d %s)", e.Seq, map[bool]string{true: "Q->S", false: "S->Q"}[l[0] == scen.ReqID])
				noteWire()
				mu.Lock()
				res.Events = append(res.Events, Event{K: "deliver", Seq: e.Seq, From: string(l[0])})
				mu.Unlock()
			case "qpause", "qunpause", "qcancel", "spause", "sunpause", "scancel":
				if !res.Reqs[i].HasID {
					continue
				}
				id := res.Reqs[i].ID
				in := rq
				if op.K[0] == 's' {
					in = rs
				}
				logf(op.K, i, "")
				switch op.K[1:] {
				case "pause":
					api(desc, func() error { return in.GS.Pause(w.Ctx, id) })
				case "unpause":
					api(desc, func() error { return in.GS.Unpause(w.Ctx, id) })
				case "cancel":
					api(desc, func() error { return in.GS.Cancel(w.Ctx, id) })
				}
			case "intrude", "behind":
				if op.X == nil || (op.K == "behind" && w.Net.Peek(scen.RespID, scen.ReqID) == nil) {
					continue
				}
				var rsps []gsmsg.GraphSyncResponse
				live, paused := false, false
				states := rq.Impl.PeerState(scen.RespID).OutgoingState.RequestStates
				var md []gsmsg.GraphSyncLinkMetadatum
				blks := []blocks.Block{}
				for k := 0; k < op.X.NMeta && k < len(b.Order); k++ {
					md = append(md, gsmsg.GraphSyncLinkMetadatum{Link: b.Order[len(b.Order)-1-k], Action: graphsync.LinkActionPresent})
					if k < op.X.NBlocks {
						if blk, err := blocks.NewBlockWithCid(b.Data[b.Order[len(b.Order)-1-k]], b.Order[len(b.Order)-1-k]); err == nil {
							blks = append(blks, blk)
						}
					}
				}
				for _, ri := range op.X.Reqs {
					ri = ri % len(c.Reqs)
					if !res.Reqs[ri].HasID {
						continue
					}
					id := res.Reqs[ri].ID
					if st, ok := states[id]; ok {
						live = true
						mu.Lock()
						intrudeLive[id] = true
						mu.Unlock()
						if st == graphsync.Paused {
							paused = true
						}
					}
					exts := []graphsync.ExtensionData{{Name: ExtFromThird, Data: basicnode.NewString("third")}}
					if op.X.Ext != "" {
						exts = append(exts, graphsync.ExtensionData{Name: graphsync.ExtensionName(op.X.Ext), Data: basicnode.NewString("x")})
					}
					rsps = append(rsps, gsmsg.NewResponse(id, graphsync.ResponseStatusCode(op.X.Status), md, exts...))
				}
				clearLive := func() {
					mu.Lock()
					for k := range intrudeLive {
						delete(intrudeLive, k)
					}
					mu.Unlock()
				}
				if len(rsps) == 0 {
					clearLive()
					continue
				}
				bm := map[cid.Cid]blocks.Block{}
				for _, blk := range blks {
					bm[blk.Cid()] = blk
				}
				rm := map[graphsync.RequestID]gsmsg.GraphSyncResponse{}
				for _, r := range rsps {
					rm[r.RequestID()] = r
				}
				w.Net.Connect(scen.ThirdID, scen.ReqID)
				var gate chan struct{}
				if op.K == "behind" {
					// the requestor's run loop is held inside a response hook by a message of the genuine
					// responder, a second genuine message (if one is pending) queues up behind it, and the third
					// peer's message arrives behind that one
					gate = make(chan struct{})
					mu.Lock()
					loopGate = gate
					mu.Unlock()
					for k := 0; k < 2; k++ {
						if pe := w.Net.Peek(scen.RespID, scen.ReqID); pe != nil {
							checkRerequest(pe)
							checkDedup(pe)
							e := w.Net.Deliver(scen.RespID, scen.ReqID)
							noteWire()
							mu.Lock()
							res.Events = append(res.Events, Event{K: "deliver", Seq: e.Seq, From: string(scen.RespID)})
							mu.Unlock()
							if k == 0 {
								w.Wait()
							}
						}
					}
					res.Labels["third-peer-message-behind-a-held-run-loop"] = true
				}
				if err := w.Net.Inject(scen.ThirdID, scen.ReqID, gsmsg.NewMessage(nil, rm, bm)); err != nil {
					if gate != nil {
						mu.Lock()
						loopGate = nil
						mu.Unlock()
						close(gate)
					}
					clearLive()
					w.Wait()
					continue
				}
				sentBefore := len(w.Net.SentSince(0))
				w.Net.Deliver(scen.ThirdID, scen.ReqID)
				if gate != nil {
					mu.Lock()
					loopGate = nil
					mu.Unlock()
					close(gate)
				}
				w.Wait()
				after := rq.Impl.PeerState(scen.RespID).OutgoingState.RequestStates
				mu.Lock()
				for _, e := range w.Net.SentSince(sentBefore) {
					if e.From == scen.ReqID && e.To == scen.ThirdID {
						for _, q := range e.Msg.Requests() {
							if _, still := after[q.ID()]; intrudeLive[q.ID()] && (still || op.K == "intrude") {
								res.SentToThirdLive++
							}
						}
					}
				}
				// hook calls count for requests that were in progress when the third peer's message was handled:
				// with "behind", genuine messages handled just before it may have ended the request (a response
				// naming a request that has ended reaches the hooks whoever sends it), so only requests still in
				// progress afterwards are judged
				for id, n := range thirdHook {
					if _, still := after[id]; still || op.K == "intrude" {
						res.ThirdHookLive += n
					}
					delete(thirdHook, id)
				}
				for id, n := range thirdAsGenuine {
					if _, still := after[id]; still || op.K == "intrude" {
						res.ThirdAsGenuine += n
					}
					delete(thirdAsGenuine, id)
				}
				for k := range intrudeLive {
					delete(intrudeLive, k)
				}
				mu.Unlock()
				res.Intrusions++
				if live {
					res.IntrudedLive++
				}
				if paused {
					res.IntrudedPaused++
				}
				desc = fmt.Sprintf("%s(%v st=%d ext=%s)", op.K, op.X.Reqs, op.X.Status, op.X.Ext)
			case "qrace":
				// request i waits in the queue behind a busy worker (held by request op.N's gate, at the block at
				// which it then pauses itself). In one go, while the loop is busy with a first slow
				// outgoing-request hook: the gate opens (the worker's release of its task queues up), a second
				// request with a slow hook queues up, then i's cancel. The loop handles the release, the worker
				// comes free and picks i's task up while the loop sits in the second hook -- and i's cancel is
				// handled before the worker's question about that task
				h := op.N % len(c.Reqs)
				var ys []int
				for k := range c.Reqs {
					if results[k] == nil && c.Reqs[k].OutHookYield {
						ys = append(ys, k)
					}
				}
				if len(ys) < 2 || !res.Reqs[i].HasID || results[i] == nil {
					continue
				}
				mu.Lock()
				inOutHook = false
				mu.Unlock()
				started := make(chan struct{}, 2)
				go func() { start(ys[0]); started <- struct{}{} }()
				for k := 0; k < 200; k++ {
					runtime.Gosched()
					mu.Lock()
					in := inOutHook
					mu.Unlock()
					if in {
						break
					}
				}
				qgates[h].release()
				wgates[h].release()
				for k := 0; k < 30; k++ {
					runtime.Gosched()
				}
				go func() { start(ys[1]); started <- struct{}{} }()
				for k := 0; k < 10; k++ {
					runtime.Gosched()
				}
				id := res.Reqs[i].ID
				api(desc, func() error { return rq.GS.Cancel(w.Ctx, id) })
				<-started
				<-started
				res.Labels["cancel-races-the-worker-picking-the-task-up"] = true
			case "sgate":
				sgates[i].release()
			case "qgate":
				qgates[i].release()
				wgates[i].release()
			case "tick":
				w.Wait()
				time.Sleep(150 * time.Millisecond)
			}
			snapshot(desc)
		}
		// every request is issued, every gate opened, everything paused is resumed, until nothing moves
		for i := range c.Reqs {
			start(i)
		}
		snapshot("start-all")
		for round := 0; round < 12; round++ {
			for i := range c.Reqs {
				qgates[i].release()
				sgates[i].release()
				wgates[i].release()
			}
			w.Quiesce()
			moved := false
			for id, st := range rq.Impl.PeerState(scen.RespID).OutgoingState.RequestStates {
				if st == graphsync.Paused {
					moved = true
					id := id
					ii, _ := getID(id)
					logf("qunpause", ii, "final")
					api("final-qunpause", func() error { return rq.GS.Unpause(w.Ctx, id) })
					w.Quiesce()
				}
			}
			for id, st := range rs.Impl.PeerState(scen.ReqID).IncomingState.RequestStates {
				if st == graphsync.Paused {
					moved = true
					id := id
					ii, _ := getID(id)
					logf("sunpause", ii, "final")
					api("final-sunpause", func() error { return rs.GS.Unpause(w.Ctx, id) })
					w.Quiesce()
				}
			}
			snapshot("final-round")
			if !moved {
				break
			}
		}
		w.Quiesce()
		time.Sleep(time.Minute)
		w.Quiesce()
		snapshot("final")
		for i, r := range results {
			if r == nil {
				continue
			}
			o := res.Reqs[i]
			o.Visits, o.Errs, o.RespClosed, o.ErrClosed = r.Snapshot()
		}
		res.Store = qs.Snapshot()
		for k, st := range keyStores {
			res.KeyStores[k] = st.Snapshot()
		}
		res.Sent = append([]*sim.Envelope(nil), w.Net.Sent...)
		res.FinalStats = [2]graphsync.Stats{rq.GS.Stats(), rs.GS.Stats()}
		mu.Lock()
		for name := range apiPending {
			res.APIHung = append(res.APIHung, name)
		}
		mu.Unlock()
		sort.Strings(res.APIHung)
		if trace {
			fmt.Println(w.Net.Transcript())
		}
	})
	res.Panic, res.Hung = ro.Panic, ro.Hung
	return res
}

// GenOps draws an operation list for n requests.
func GenOps(t *rapid.T, n, maxOps int, kinds []string) []Op {
	m := rapid.IntRange(0, maxOps).Draw(t, "nops")
	ops := make([]Op, 0, m)
	for j := 0; j < m; j++ {
		k := rapid.SampledFrom(kinds).Draw(t, "opk")
		op := Op{K: k}
		if k == "deliver" {
			op.N = rapid.IntRange(0, 3).Draw(t, "link")
		} else if k != "tick" {
			op.R = rapid.IntRange(0, n-1).Draw(t, "opr")
		}
		ops = append(ops, op)
	}
	return ops
}

// StaleAfterRerequest reports whether a response message the responder sent for
// request i before the requestor re-sent that request (after a requestor-side
// pause) reached the requestor after the re-request had gone out: the requestor
// cannot tell such a message from the answer to its new request.
func (r *Result) StaleAfterRerequest(i int) bool {
	if !r.Reqs[i].HasID {
		return false
	}
	id := r.Reqs[i].ID
	var news []*sim.Envelope
	for _, e := range r.Sent {
		for _, q := range e.Msg.Requests() {
			if q.ID() == id && q.Type() == graphsync.RequestTypeNew {
				news = append(news, e)
			}
		}
	}
	for _, re := range news[min(1, len(news)):] {
		for _, e := range r.Sent {
			// e belongs to the earlier run if the responder sent it before it received the re-request
			earlier := re.DeliveredAtSeq < 0 || e.Seq < re.DeliveredAtSeq
			if e.From != scen.RespID || !earlier || e.DeliveredAtSeq <= re.Seq {
				continue
			}
			for _, rsp := range e.Msg.Responses() {
				if rsp.RequestID() == id {
					return true
				}
			}
		}
	}
	return false
}
