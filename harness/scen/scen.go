// Package scen holds the two-instance exchange scenario shared by the
// simulator-based properties (C02, C24, C07, C06, C20, C09, ...).
package scen

import (
	"fmt"
	"strings"
	"testing"

	"github.com/ipfs/go-cid"
	"github.com/ipld/go-ipld-prime"
	cidlink "github.com/ipld/go-ipld-prime/linking/cid"
	"github.com/libp2p/go-libp2p/core/peer"
	"pgregory.net/rapid"

	"github.com/ipfs/go-graphsync"
	gsimpl "github.com/ipfs/go-graphsync/impl"

	"verif/harness/dagen"
	"verif/harness/sim"
)

var (
	ReqID   = peer.ID("requestor-peer")
	RespID  = peer.ID("responder-peer")
	ThirdID = peer.ID("third-peer")
)

// Base is the generated part common to exchange scenarios.
type Base struct {
	DAG   dagen.DAG   `json:"dag"`
	Sel   *dagen.Sel  `json:"sel"`
	Split dagen.Split `json:"split"`
}

func GenBase(t *rapid.T, maxBlocks int) Base {
	// one case in three nests inline maps / lists one level deeper: links then sit at depth 3 inside a block
	depth := rapid.SampledFrom([]int{2, 2, 3}).Draw(t, "inline-depth")
	d := dagen.GenDAG(t, dagen.GenOpts{MaxBlocks: maxBlocks, MaxDepth: depth})
	sel := dagen.GenTraversalSel(t)
	return Base{DAG: d, Sel: sel, Split: dagen.GenSplit(t, len(d.Blocks))}
}

// Prepared is a built case with its reference outcome.
type Prepared struct {
	Base      Base
	B         *dagen.Built
	Sel       ipld.Node // wire (canonical) form
	ReqStore  map[cid.Cid][]byte
	RespStore map[cid.Cid][]byte
	Ref       *dagen.Ref
	RootGiven bool
}

// Prepare builds the case. ok=false when it is outside the domain (ill-formed
// selector, selector erroring on this DAG).
func (b Base) Prepare() (*Prepared, bool) {
	if !b.Sel.WellFormed() {
		return nil, false
	}
	built, err := b.DAG.Build()
	if err != nil {
		return nil, false
	}
	split := append(dagen.Split(nil), b.Split...)
	for len(split) < len(built.Order) {
		split = append(split, 2)
	}
	p := &Prepared{Base: b, B: built, Sel: dagen.Canonical(b.Sel.Node())}
	p.ReqStore, p.RespStore = built.Stores(split)
	p.Ref = dagen.RefExchange(built.Root, p.ReqStore, p.RespStore, p.Sel)
	if p.Ref.LocalPrefix < len(p.Ref.Loads) && p.Ref.RootMissingOnResponder {
		// domain note (DESIGN C02): the responder is given the root whenever anything is needed from it
		p.RespStore[built.Root] = built.Data[built.Root]
		p.Ref = dagen.RefExchange(built.Root, p.ReqStore, p.RespStore, p.Sel)
		p.RootGiven = true
	}
	if p.Ref.Err != nil {
		return nil, false
	}
	return p, true
}

// NeedsRemote reports whether the request goes to the network at all.
func (p *Prepared) NeedsRemote() bool { return p.Ref.LocalPrefix < len(p.Ref.Loads) }

// K2 reports membership in the class of known finding C02-K2 (skip count in
// requestor units consumed in responder units) for an effective skip count k.
func (p *Prepared) K2(k int) bool {
	if !p.NeedsRemote() || k <= 0 {
		return false
	}
	rr := dagen.RefStore(p.B.Root, p.RespStore, p.Sel, 0)
	seen := map[cid.Cid]bool{}
	for i, l := range rr.Loads {
		if i+1 > k {
			break
		}
		if l.Present && !seen[l.Cid] && p.Ref.FromRemote[l.Cid] {
			return true
		}
		seen[l.Cid] = true
	}
	return false
}

// Shape labels used by several properties.
func (p *Prepared) Shape() (labels []string, partial bool) {
	reqOnly, respOnly := 0, 0
	reached := map[cid.Cid]bool{}
	repeated, inline := false, false
	for _, l := range p.Ref.Loads {
		if reached[l.Cid] {
			repeated = true
		}
		reached[l.Cid] = true
		if strings.Count(l.Path, "/") >= 1 {
			inline = true
		}
	}
	for c := range reached {
		_, q := p.ReqStore[c]
		_, r := p.RespStore[c]
		if q && !r {
			reqOnly++
		}
		if r && !q {
			respOnly++
		}
	}
	partial = reqOnly > 0 && respOnly > 0
	if partial {
		labels = append(labels, "partial-split")
	}
	if len(p.Ref.Missing) > 0 {
		labels = append(labels, "missing-link")
	}
	if repeated {
		labels = append(labels, "shared-block-twice")
	}
	if inline {
		labels = append(labels, "link-in-inline-node")
	}
	if len(p.Ref.FromRemote) > 0 {
		labels = append(labels, "uses-remote")
	}
	if !p.NeedsRemote() {
		labels = append(labels, "fully-local")
	}
	if p.RootGiven {
		labels = append(labels, "root-given-to-responder")
	}
	return
}

func (p *Prepared) Note() string {
	return fmt.Sprintf("sel=%s loads=%d visits=%d missing=%d remote=%d localprefix=%d", p.Base.Sel, len(p.Ref.Loads), len(p.Ref.Visits), len(p.Ref.Missing), len(p.Ref.FromRemote), p.Ref.LocalPrefix)
}

// Outcome is what one simulated exchange produced.
type Outcome struct {
	Visits     []dagen.Visit
	Errs       []error
	RespClosed bool
	ErrClosed  bool
	Store      map[cid.Cid][]byte
	Writes     []cid.Cid
	Sent       []*sim.Envelope
	Hung       bool
	Panic      string
	Extra      map[string]any
}

// ExOpts customises the exchange.
type ExOpts struct {
	ReqOpts, RespOpts []gsimpl.Option
	Exts              []graphsync.ExtensionData
	TrustedStores     bool
	// Setup runs after both instances exist and before the request is issued.
	Setup func(w *sim.World, rq, rs *sim.Inst)
	// Drive replaces the default "deliver everything in order until quiescent".
	Drive func(w *sim.World, rq, rs *sim.Inst, res *sim.ReqResult)
	// After runs at final quiescence, before teardown.
	After func(w *sim.World, rq, rs *sim.Inst, o *Outcome)
}

// ValidateAll makes a responder cooperative: every request is accepted.
func ValidateAll(in *sim.Inst) {
	in.GS.RegisterIncomingRequestHook(func(p peer.ID, r graphsync.RequestData, ha graphsync.IncomingRequestHookActions) { ha.ValidateRequest() })
}

// Exchange runs one request between two real instances.
func Exchange(t *testing.T, p *Prepared, o ExOpts) Outcome {
	var out Outcome
	out.Extra = map[string]any{}
	ro := sim.Run(t, func(w *sim.World) {
		rq := w.AddInstance(ReqID, sim.NewStore(p.ReqStore, true), o.ReqOpts...)
		rs := w.AddInstance(RespID, sim.NewStore(p.RespStore, true), o.RespOpts...)
		ValidateAll(rs)
		if o.Setup != nil {
			o.Setup(w, rq, rs)
		}
		res := w.Request(rq, RespID, cidlink.Link{Cid: p.B.Root}, p.Base.Sel.Node(), o.Exts...)
		if o.Drive != nil {
			o.Drive(w, rq, rs, res)
		}
		w.Quiesce()
		out.Visits, out.Errs, out.RespClosed, out.ErrClosed = res.Snapshot()
		out.Store = rq.Store.Snapshot()
		out.Writes = append([]cid.Cid(nil), rq.Store.Writes...)
		out.Sent = append([]*sim.Envelope(nil), w.Net.Sent...)
		if o.After != nil {
			o.After(w, rq, rs, &out)
		}
	})
	out.Hung, out.Panic = ro.Hung, ro.Panic
	return out
}

// OutcomeKey is a comparable rendering of (delivered nodes, missing-block errors, other errors, stored blocks).
func (o *Outcome) Key() string {
	var sb strings.Builder
	for _, v := range o.Visits {
		sb.WriteString(v.Key())
		sb.WriteString("\n")
	}
	sb.WriteString("--errs--\n")
	var es []string
	for _, e := range o.Errs {
		es = append(es, fmt.Sprintf("%T:%v", e, e))
	}
	sortStrings(es)
	sb.WriteString(strings.Join(es, "\n"))
	sb.WriteString("\n--store--\n")
	sb.WriteString(strings.Join(dagen.SortedCids(o.Store), "\n"))
	return sb.String()
}

func sortStrings(s []string) {
	for i := 1; i < len(s); i++ {
		for j := i; j > 0 && s[j] < s[j-1]; j-- {
			s[j], s[j-1] = s[j-1], s[j]
		}
	}
}

// RespRef is the responder's own traversal over its store.
func (p *Prepared) RespRef() *dagen.Ref {
	return dagen.RefStore(p.B.Root, p.RespStore, p.Sel, 0)
}

// Diverge reports whether the requestor's traversal (over both stores) and the
// responder's own traversal differ somewhere within their first k link loads
// (plus slack for links nobody has, which the two sides may count differently).
// A skip count k sent when they differ is interpreted in the wrong units by
// the responder: the class of known finding C02-K2.
func (p *Prepared) Diverge(k int) bool {
	if k <= 0 {
		return false
	}
	rr := p.RespRef()
	n := k + len(p.Ref.Missing)
	for i := 0; i < n; i++ {
		if i >= len(p.Ref.Loads) && i >= len(rr.Loads) {
			return false
		}
		if i >= len(p.Ref.Loads) || i >= len(rr.Loads) {
			return true
		}
		a, b := p.Ref.Loads[i], rr.Loads[i]
		if a.Path != b.Path || a.Cid != b.Cid {
			return true
		}
	}
	return false
}
