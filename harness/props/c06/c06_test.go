package c06

import (
	"fmt"
	"os"
	"strings"
	"testing"

	"pgregory.net/rapid"

	"github.com/ipfs/go-graphsync"
	"github.com/ipfs/go-graphsync/donotsendfirstblocks"

	"verif/harness/dagen"
	"verif/harness/pbt"
	"verif/harness/scen"
	"verif/harness/scen/duo"
)

var run = pbt.Init("C06")
var outerT *testing.T

func TestMain(m *testing.M) { pbt.Main(m, run) }

const kStale = "C06-earlier-response-arrives-after-rerequest"
const kActive = "C06-rerequest-while-earlier-task-active"

type Case struct {
	Base scen.Base   `json:"base"`
	Spec duo.ReqSpec `json:"spec"`
	Ops  []duo.Op    `json:"ops"`
}

var opKinds = []string{"deliver", "deliver", "deliver", "deliver", "qpause", "qunpause", "spause", "sunpause", "tick", "sgate", "qgate"}

func gen(t *rapid.T) Case {
	c := Case{Base: scen.GenBase(t, run.N(12, 30))}
	switch rapid.IntRange(0, 5).Draw(t, "stall") {
	case 0, 1:
		c.Spec.ReqPauseAt = rapid.IntRange(1, 6).Draw(t, "qp")
	case 2, 3:
		c.Spec.RespPauseAt = rapid.IntRange(1, 6).Draw(t, "sp")
	case 4:
		c.Spec.RespGateAt = rapid.IntRange(1, 5).Draw(t, "sg")
	}
	if rapid.IntRange(0, 3).Draw(t, "qgate") == 0 {
		c.Spec.ReqGateAt = rapid.IntRange(1, 5).Draw(t, "qg")
	}
	c.Ops = append([]duo.Op{{K: "start"}}, duo.GenOps(t, 1, 24, opKinds)...)
	return c
}

func judge(c Case) *pbt.Verdict {
	v := &pbt.Verdict{}
	p, ok := c.Base.Prepare()
	if !ok {
		v.Skip = true
		return v
	}
	labels, partial := p.Shape()
	for _, l := range labels {
		v.Label(l)
	}
	st := &duo.Stores{Req: p.ReqStore, Resp: p.RespStore}
	mk := func(spec duo.ReqSpec, ops []duo.Op) duo.Case {
		return duo.Case{DAG: c.Base.DAG, Sel: c.Base.Sel, Split: c.Base.Split, Reqs: []duo.ReqSpec{spec}, Ops: ops}
	}
	base := duo.RunWith(outerT, mk(duo.ReqSpec{}, []duo.Op{{K: "start"}}), st)
	got := duo.RunWith(outerT, mk(c.Spec, c.Ops), st)
	if base.Panic != "" || got.Panic != "" {
		return v.Failf("panic: base=%q paused=%q", base.Panic, got.Panic)
	}
	if base.Skip || got.Skip {
		v.Skip = true
		return v
	}
	if p.Ref.PathLoadedTwice() && run.Known("C02-path-loaded-twice-then-resume") {
		v.Excluded = "C02-path-loaded-twice-then-resume"
		return v
	}
	// known finding C02-K2 (skip count units): a request that went out with a skip count k while the two
	// sides' traversals differ within their first k loads is outside what this check judges
	if run.Known("C02-K2-skipcount-units") {
		for _, e := range got.Sent {
			for _, rq := range e.Msg.Requests() {
				if d, ok := rq.Extension(graphsync.ExtensionsDoNotSendFirstBlocks); ok {
					if k, err := donotsendfirstblocks.DecodeDoNotSendFirstBlocks(d); err == nil && p.Diverge(int(k)) {
						v.Excluded = "C02-K2-skipcount-units"
						return v
					}
				}
			}
		}
	}
	// known finding: a message of the earlier response reaches the requestor after it re-sent the request
	if run.Known(kStale) && got.StaleAfterRerequest(0) {
		v.Excluded = kStale
		return v
	}
	if run.Known(kActive) && got.RerequestWhileActive[0] {
		v.Excluded = kActive
		return v
	}
	// did a pause take effect?
	pausedQ, pausedS := false, false
	for _, s := range got.Snapshots {
		if s.ReqStates[0] == graphsync.Paused.String() {
			pausedQ = true
		}
		if s.RespStates[0] == graphsync.Paused.String() {
			pausedS = true
		}
	}
	if pausedQ {
		v.Label("requestor-paused")
	}
	if pausedS {
		v.Label("responder-paused")
	}
	v.NonTrivial = (pausedQ || pausedS) && p.NeedsRemote() && len(base.Reqs[0].Visits) > 1
	if v.NonTrivial && partial {
		v.Label("paused-with-partial-split")
	}
	v.Note = p.Note()
	b0, g0 := base.Reqs[0], got.Reqs[0]
	if !b0.RespClosed || !b0.ErrClosed {
		v.Label("baseline-did-not-finish")
		return v // C04's business
	}
	if b0.Key() != g0.Key() {
		if os.Getenv("VERIF_TRACE") != "" {
			fmt.Printf("=== uninterrupted ===\n%s\n=== paused ===\n%s\n", b0.Key(), g0.Key())
			for _, e := range got.Events {
				fmt.Printf("  ev %s r=%d seq=%d from=%s %s\n", e.K, e.R, e.Seq, e.From, e.Info)
			}
		}
		return v.Failf("outcome with pause/resume differs from the uninterrupted exchange:\n%s", diff(b0.Key(), g0.Key()))
	}
	if a, b := strings.Join(dagen.SortedCids(base.Store), ","), strings.Join(dagen.SortedCids(got.Store), ","); a != b {
		return v.Failf("stored blocks with pause/resume differ from the uninterrupted exchange: %d vs %d blocks", len(base.Store), len(got.Store))
	}
	// while the response is paused the responder sends no block data for it
	pausedAt := -1
	for _, e := range got.Events {
		switch e.K {
		case "sunpause":
			pausedAt = -1
		case "deliver":
			// a cancel or a re-sent request from the requestor ends the paused response
			if e.From == string(scen.ReqID) {
				for _, q := range got.Sent[e.Seq].Msg.Requests() {
					if q.Type() != graphsync.RequestTypeUpdate {
						pausedAt = -1
					}
				}
			}
		case "wire":
			if e.From != string(scen.RespID) {
				continue
			}
			env := got.Sent[e.Seq]
			for _, r := range env.Msg.Responses() {
				if pausedAt >= 0 && (r.Metadata().Length() > 0 || len(env.Msg.Blocks()) > 0) {
					return v.Failf("responder sent metadata/blocks in message #%d although the response has been paused since message #%d and was not unpaused in between", e.Seq, pausedAt)
				}
				if r.Status() == graphsync.RequestPaused {
					pausedAt = e.Seq
				}
			}
		}
	}
	return v
}

func diff(a, b string) string {
	la, lb := strings.Split(a, "\n"), strings.Split(b, "\n")
	for i := 0; i < len(la) || i < len(lb); i++ {
		var x, y string
		if i < len(la) {
			x = la[i]
		}
		if i < len(lb) {
			y = lb[i]
		}
		if x != y {
			return fmt.Sprintf("first difference at line %d (of %d vs %d):\n  uninterrupted: %s\n  paused:        %s", i, len(la), len(lb), x, y)
		}
	}
	return "(no difference)"
}

var def = pbt.Def[Case]{Name: "pause-resume-metamorphic", Gen: gen, Run: judge, Journal: true}

func TestProp(t *testing.T) {
	outerT = t
	pbt.Check(t, run, def, 5000, 250000)
}

func TestReplay(t *testing.T) {
	outerT = t
	pbt.Register(run, def)
	run.Replay(t)
}
