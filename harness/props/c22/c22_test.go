package c22

import (
	"encoding/json"
	"fmt"
	"os"
	"io"
	"strings"
	"sync"
	"testing"

	"github.com/ipfs/go-cid"
	"github.com/ipld/go-ipld-prime"
	"github.com/ipld/go-ipld-prime/codec"
	"github.com/ipld/go-ipld-prime/datamodel"
	cidlink "github.com/ipld/go-ipld-prime/linking/cid"
	"github.com/ipld/go-ipld-prime/node/basicnode"
	"github.com/ipld/go-ipld-prime/traversal"
	"github.com/libp2p/go-libp2p/core/peer"
	"pgregory.net/rapid"

	"github.com/ipfs/go-graphsync"
	gsimpl "github.com/ipfs/go-graphsync/impl"

	"verif/harness/dagen"
	"verif/harness/pbt"
	"verif/harness/scen"
	"verif/harness/sim"
)

var run = pbt.Init("C22")
var outerT *testing.T

func TestMain(m *testing.M) { pbt.Main(m, run) }

var sites = []string{"decode", "reify", "chooser", "decode", "reify", "chooser", "decode", "reify", "chooser", "read", "write"}

type Case struct {
	DAG   dagen.DAG `json:"dag"`  // request 1 (the one that panics)
	DAG2  dagen.DAG `json:"dag2"` // request 2 (bystander), disjoint content
	Site  string    `json:"site"`
	Side  string    `json:"side"` // requestor responder
	K     int       `json:"k"`    // panic at the k-th block (0-based) of request 1's traversal
	Early bool      `json:"early"` // request 2 is issued before request 1 (else after)
	// NoCallback: neither instance is given a panic callback (the default configuration). Storage-function
	// sites only: a regression at a traverser site without a callback wedges on a mutex, which virtual time
	// cannot tell from slowness (inconclusive, never a verdict)
	NoCallback bool `json:"no_callback,omitempty"`
}

func gen(t *rapid.T) Case {
	c := Case{DAG: dagen.GenDAG(t, dagen.GenOpts{MaxBlocks: run.N(7, 14), MaxDepth: 2}), DAG2: dagen.GenDAG(t, dagen.GenOpts{MaxBlocks: 5, MaxDepth: 1})}
	c.Site = rapid.SampledFrom(sites).Draw(t, "site")
	c.Side = rapid.SampledFrom([]string{"requestor", "responder"}).Draw(t, "side")
	if c.Site == "write" {
		c.Side = "requestor"
	}
	c.K = rapid.IntRange(0, 5).Draw(t, "k")
	c.Early = rapid.Bool().Draw(t, "early")
	if (c.Site == "read" || c.Site == "write") && rapid.Bool().Draw(t, "nocallback") {
		c.NoCallback = true
	}
	return c
}

// knownKey is the known-finding class a case belongs to ("" = none).
func knownKey(c Case) string {
	if c.Site == "read" || c.Site == "write" {
		return "C22-storage-function-panic"
	}
	return ""
}

type panicVal struct{ s string }

type outcome struct {
	key1, key2     string
	closed1        bool
	errs1          []error
	visits1        int
	cbReq, cbResp  []any
	fired          bool
	statuses       []graphsync.ResponseStatusCode
	hung           bool
	panicked       string
	target         cid.Cid
}

func exchange(c Case, inject bool) (*outcome, bool) {
	o := &outcome{}
	b1, err := c.DAG.Build()
	if err != nil {
		return nil, false
	}
	// make the bystander's content disjoint: prefix its raw payloads / wrap its root
	var d2 dagen.DAG
	raw, _ := json.Marshal(c.DAG2)
	_ = json.Unmarshal(raw, &d2) // deep copy: the links are shifted below
	d2.Blocks = append([]dagen.Block{{Raw: true, Data: "bystander-only"}}, d2.Blocks...)
	for i := range d2.Blocks[1:] {
		shift(d2.Blocks[i+1].Node)
	}
	d2.Blocks = append(d2.Blocks, dagen.Block{Node: &dagen.Val{K: "map", Keys: []string{"by", "root"}, Vals: []*dagen.Val{{K: "link", L: 0}, {K: "link", L: len(d2.Blocks) - 1}}}})
	b2, err := d2.Build()
	if err != nil {
		return nil, false
	}
	sel := dagen.RecAll(-1).Node()
	full := dagen.RefFull(b1, dagen.Canonical(sel))
	if full.Err != nil || len(full.Loads) == 0 {
		return nil, false
	}
	// target: the K-th distinct block in traversal order
	var order []cid.Cid
	seen := map[cid.Cid]bool{}
	for _, l := range full.Loads {
		if !seen[l.Cid] {
			seen[l.Cid] = true
			order = append(order, l.Cid)
		}
	}
	target := order[c.K%len(order)]
	o.target = target
	if _, clash := b2.Data[target]; clash {
		return nil, false
	}
	var mu sync.Mutex
	boom := func(side string, got cid.Cid) {
		if inject && side == c.Side && got == target {
			mu.Lock()
			o.fired = true
			mu.Unlock()
			panic(panicVal{"injected " + c.Site + " panic"})
		}
	}
	mkLS := func(st *sim.Store, side string) ipld.LinkSystem {
		ls := st.LinkSystem()
		r, w := ls.StorageReadOpener, ls.StorageWriteOpener
		ls.StorageReadOpener = func(lc ipld.LinkContext, l ipld.Link) (io.Reader, error) {
			if c.Site == "read" {
				boom(side, l.(cidlink.Link).Cid)
			}
			return r(lc, l)
		}
		ls.StorageWriteOpener = func(lc ipld.LinkContext) (io.Writer, ipld.BlockWriteCommitter, error) {
			wr, commit, err := w(lc)
			if err != nil {
				return wr, commit, err
			}
			return wr, func(l ipld.Link) error {
				if c.Site == "write" {
					boom(side, l.(cidlink.Link).Cid)
				}
				return commit(l)
			}, nil
		}
		dc := ls.DecoderChooser
		ls.DecoderChooser = func(l datamodel.Link) (codec.Decoder, error) {
			d, err := dc(l)
			if err != nil || c.Site != "decode" {
				return d, err
			}
			cc := l.(cidlink.Link).Cid
			return func(na datamodel.NodeAssembler, rd io.Reader) error {
				boom(side, cc)
				return d(na, rd)
			}, nil
		}
		ls.NodeReifier = func(lc ipld.LinkContext, n datamodel.Node, _ *ipld.LinkSystem) (datamodel.Node, error) {
			if c.Site == "reify" && lc.LinkNode != nil {
				if l, err := lc.LinkNode.AsLink(); err == nil {
					boom(side, l.(cidlink.Link).Cid)
				}
			}
			return n, nil
		}
		return ls
	}
	chooser := func(side string) traversal.LinkTargetNodePrototypeChooser {
		return func(l datamodel.Link, lc ipld.LinkContext) (datamodel.NodePrototype, error) {
			if c.Site == "chooser" {
				boom(side, l.(cidlink.Link).Cid)
			}
			return basicnode.Prototype.Any, nil
		}
	}
	respData := map[cid.Cid][]byte{}
	for k, v := range b1.Data {
		respData[k] = v
	}
	for k, v := range b2.Data {
		respData[k] = v
	}
	ro := sim.Run(outerT, func(w *sim.World) {
		qs, ss := sim.NewStore(nil, true), sim.NewStore(respData, true)
		var qopts, sopts []gsimpl.Option
		if !c.NoCallback {
			qopts = append(qopts, gsimpl.PanicCallback(func(v any, _ string) { mu.Lock(); o.cbReq = append(o.cbReq, v); mu.Unlock() }))
			sopts = append(sopts, gsimpl.PanicCallback(func(v any, _ string) { mu.Lock(); o.cbResp = append(o.cbResp, v); mu.Unlock() }))
		}
		rq := w.AddInstanceLS(scen.ReqID, qs, mkLS(qs, "requestor"), qopts...)
		rs := w.AddInstanceLS(scen.RespID, ss, mkLS(ss, "responder"), sopts...)
		rs.GS.RegisterIncomingRequestHook(func(p peer.ID, r graphsync.RequestData, ha graphsync.IncomingRequestHookActions) {
			ha.ValidateRequest()
			ha.UseLinkTargetNodePrototypeChooser(chooser("responder"))
		})
		rq.GS.RegisterOutgoingRequestHook(func(p peer.ID, r graphsync.RequestData, ha graphsync.OutgoingRequestHookActions) {
			ha.UseLinkTargetNodePrototypeChooser(chooser("requestor"))
		})
		var r1, r2 *sim.ReqResult
		if c.Early {
			r2 = w.Request(rq, scen.RespID, cidlink.Link{Cid: b2.Root}, sel)
			w.DeliverAll(2)
		}
		r1 = w.Request(rq, scen.RespID, cidlink.Link{Cid: b1.Root}, sel)
		if !c.Early {
			w.DeliverAll(2)
			r2 = w.Request(rq, scen.RespID, cidlink.Link{Cid: b2.Root}, sel)
		}
		w.Quiesce()
		v1, e1, rc1, ec1 := r1.Snapshot()
		v2, e2, rc2, ec2 := r2.Snapshot()
		o1 := scen.Outcome{Visits: v1, Errs: e1, RespClosed: rc1, ErrClosed: ec1}
		o2 := scen.Outcome{Visits: v2, Errs: e2, RespClosed: rc2, ErrClosed: ec2}
		o.key1, o.key2 = o1.Key(), o2.Key()+fmt.Sprintf("|closed %v %v", rc2, ec2)
		o.closed1 = rc1 && ec1
		o.errs1 = e1
		o.visits1 = len(v1)
		if os.Getenv("VERIF_TRACE") != "" {
			fmt.Println(w.Net.Transcript())
			fmt.Printf("req1: %d visits errs=%v closed=%v,%v\n", len(v1), e1, rc1, ec1)
		}
		var id1 graphsync.RequestID
		for _, e := range w.Net.Sent {
			for _, q := range e.Msg.Requests() {
				if q.Type() == graphsync.RequestTypeNew && q.Root() == b1.Root {
					id1 = q.ID()
				}
			}
		}
		for _, e := range w.Net.Sent {
			for _, r := range e.Msg.Responses() {
				if r.Status().IsTerminal() && r.RequestID() == id1 {
					o.statuses = append(o.statuses, r.Status())
				}
			}
		}
	})
	o.hung, o.panicked = ro.Hung, ro.Panic
	return o, true
}

func shift(v *dagen.Val) {
	if v == nil {
		return
	}
	if v.K == "link" {
		v.L++
	}
	for _, x := range v.Vals {
		shift(x)
	}
}

func judge(c Case) *pbt.Verdict {
	v := &pbt.Verdict{}
	if k := knownKey(c); k != "" && run.Known(k) {
		v.Excluded = k
		return v
	}
	base, ok := exchange(c, false)
	if !ok {
		v.Skip = true
		return v
	}
	got, _ := exchange(c, true)
	v.Label("site-" + c.Site + "-" + c.Side)
	if got.panicked != "" {
		return v.Failf("a panic escaped into the caller: %s", got.panicked)
	}
	v.NonTrivial = got.fired
	if !got.fired {
		v.Label("site-not-reached")
		return v
	}
	if !got.closed1 {
		return v.Failf("request 1 (panic in %s %s at block %s) never ended: its channels are still open at final quiescence", c.Side, c.Site, got.target)
	}
	if c.Side == "responder" {
		// the responder's error for the request is the failure status it answers with (the requestor may
		// already have everything it needs and end the request before that status arrives)
		if len(got.statuses) != 1 || got.statuses[0].IsSuccess() {
			return v.Failf("responder %s panicked at block %s but the response did not end with exactly one failure status: terminal statuses sent %v", c.Site, got.target, got.statuses)
		}
	} else if len(got.errs1) == 0 {
		return v.Failf("request 1 ended without any error although %s %s panicked at block %s (%d nodes delivered; terminal statuses on the wire %v; callbacks req=%d resp=%d)", c.Side, c.Site, got.target, got.visits1, got.statuses, len(got.cbReq), len(got.cbResp))
	}
	cb := got.cbReq
	if c.Side == "responder" {
		cb = got.cbResp
	}
	found := false
	for _, x := range cb {
		if pv, ok := x.(panicVal); ok && strings.HasPrefix(pv.s, "injected") {
			found = true
		}
	}
	if c.NoCallback {
		v.Label("no-panic-callback-configured")
	}
	if !found && !c.NoCallback {
		return v.Failf("the %s's panic callback was not given the panic raised in its %s function (callback calls: requestor %d, responder %d; request 1 errors: %v)", c.Side, c.Site, len(got.cbReq), len(got.cbResp), got.errs1)
	}
	if got.key2 != base.key2 {
		return v.Failf("the bystander request's outcome changed:\n--- without panic ---\n%s\n--- with panic ---\n%s", base.key2, got.key2)
	}
	return v
}

var def = pbt.Def[Case]{Name: "panic-isolated", Gen: gen, Run: judge, Journal: true}

func TestProp(t *testing.T) {
	outerT = t
	pbt.Check(t, run, def, 8000, 300000)
}

func TestReplay(t *testing.T) {
	outerT = t
	pbt.Register(run, def)
	run.Replay(t)
}
