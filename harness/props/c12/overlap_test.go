package c12

import (
	"bytes"
	"encoding/binary"
	"io"
	"testing"

	"github.com/libp2p/go-libp2p/core/peer"
	"pgregory.net/rapid"

	gsmsg "github.com/ipfs/go-graphsync/message"

	"verif/harness/msggen"
	"verif/harness/pbt"
)

// What one stream's hostile bytes leave behind must not reach another stream: after 1-3 tampered frames
// have each been handed to the decoder (each on its own stream, as the network layer does), two honest
// messages A and B are decoded at overlapping times -- B's whole stream is read while A's body is only
// partly read -- and each must come out exactly as when decoded on its own.

type OverlapCase struct {
	Hostile []Frame    `json:"hostile"`
	A       msggen.Msg `json:"a"`
	B       msggen.Msg `json:"b"`
	Cut     int        `json:"cut"` // how far into A's body the reader is when B's stream is read
}

func genOverlap(t *rapid.T) OverlapCase {
	c := OverlapCase{A: msggen.GenMsg(t), B: msggen.GenMsg(t), Cut: rapid.IntRange(0, 3000).Draw(t, "cut")}
	n := rapid.IntRange(1, 3).Draw(t, "nhostile")
	for i := 0; i < n; i++ {
		f := genFrame(t)
		if len(f.NMuts) == 0 && len(f.BMuts) == 0 {
			f.BMuts = []ByteMut{{K: "flip", At: rapid.IntRange(2, 400).Draw(t, "at"), N: rapid.IntRange(0, 7).Draw(t, "bit")}}
		}
		c.Hostile = append(c.Hostile, f)
	}
	return c
}

type nestedReader struct {
	data []byte
	off  int
	at   int
	fn   func()
	done bool
}

func (r *nestedReader) Read(p []byte) (int, error) {
	if r.off >= len(r.data) {
		return 0, io.EOF
	}
	if !r.done && r.off >= r.at {
		r.done = true
		r.fn()
	}
	end := len(r.data)
	if !r.done && r.at < end {
		end = r.at // stop at the cut so that the next Read call is the one that triggers the other stream
	}
	if end <= r.off {
		end = r.off + 1
	}
	n := copy(p, r.data[r.off:end])
	r.off += n
	return n, nil
}

func encodeHonest(m msggen.Msg) ([]byte, gsmsg.GraphSyncMessage, bool) {
	built, err := m.Build()
	if err != nil {
		return nil, gsmsg.GraphSyncMessage{}, false
	}
	var buf bytes.Buffer
	if err := mh.ToNet(peer.ID(""), built, &buf); err != nil {
		return nil, gsmsg.GraphSyncMessage{}, false
	}
	return buf.Bytes(), built, true
}

func judgeOverlap(c OverlapCase) *pbt.Verdict {
	v := &pbt.Verdict{}
	ab, _, ok1 := encodeHonest(c.A)
	bb, _, ok2 := encodeHonest(c.B)
	if !ok1 || !ok2 {
		v.Skip = true
		return v
	}
	// each message on its own, before anything hostile
	refA, errA := mh.FromNet(peer.ID("a"), bytes.NewReader(ab))
	refB, errB := mh.FromNet(peer.ID("b"), bytes.NewReader(bb))
	if errA != nil || errB != nil {
		v.Skip = true // the generator's message does not decode on its own: C11's subject
		return v
	}
	rejected := 0
	for _, f := range c.Hostile {
		hb, _, ok := f.encode()
		if !ok {
			continue
		}
		if _, err := mh.FromNet(peer.ID("hostile"), bytes.NewReader(hb)); err != nil {
			rejected++
		}
	}
	if rejected > 0 {
		v.Label("hostile-frame-was-rejected-first")
	}
	_, vn := binary.Uvarint(ab)
	cut := vn + 1
	if body := len(ab) - vn; body > 2 {
		cut = vn + 1 + c.Cut%(body-1)
	}
	var gotB gsmsg.GraphSyncMessage
	var gotBErr error
	nr := &nestedReader{data: ab, at: cut, fn: func() {
		gotB, gotBErr = mh.FromNet(peer.ID("b"), bytes.NewReader(bb))
	}}
	gotA, gotAErr := mh.FromNet(peer.ID("a"), nr)
	v.NonTrivial = rejected > 0 && nr.done
	if !nr.done {
		v.Label("overlap-not-reached")
		return v
	}
	if gotBErr != nil {
		return v.Failf("message B, read while message A's stream was partly read, failed to decode (%v) although it decodes on its own", gotBErr)
	}
	if gotAErr != nil {
		return v.Failf("message A failed to decode (%v) when message B's stream was read in the middle of it, although it decodes on its own", gotAErr)
	}
	if d := msggen.Diff(refA, gotA); d != "" {
		return v.Failf("message A differs from what its own stream carried when another stream is read in the middle of it: %s", d)
	}
	if d := msggen.Diff(refB, gotB); d != "" {
		return v.Failf("message B differs from what its own stream carried when read while another stream is partly read: %s", d)
	}
	if f := checkDelivered(gotA); f != "" {
		return v.Failf("%s", f)
	}
	return v
}

var defOverlap = pbt.Def[OverlapCase]{Name: "overlapping-streams-after-hostile-frames", Gen: genOverlap, Run: judgeOverlap}

func TestPropOverlap(t *testing.T) {
	pbt.Check(t, run, defOverlap, 6000, 300000)
}
