package c12

import (
	"bytes"
	"context"
	"encoding/base64"
	"os"
	"path/filepath"
	"encoding/binary"
	"fmt"
	"io"
	"sync"
	"testing"
	"testing/synctest"
	"time"

	"github.com/ipfs/go-cid"
	"github.com/ipld/go-ipld-prime/codec/dagcbor"
	"github.com/ipld/go-ipld-prime/datamodel"
	cidlink "github.com/ipld/go-ipld-prime/linking/cid"
	"github.com/ipld/go-ipld-prime/node/basicnode"
	"github.com/libp2p/go-libp2p/core/connmgr"
	"github.com/libp2p/go-libp2p/core/host"
	"github.com/libp2p/go-libp2p/core/network"
	"github.com/libp2p/go-libp2p/core/peer"
	"github.com/libp2p/go-libp2p/core/protocol"
	"pgregory.net/rapid"

	"github.com/ipfs/go-graphsync"
	gsmsg "github.com/ipfs/go-graphsync/message"
	gsmsgv2 "github.com/ipfs/go-graphsync/message/v2"
	gsnet "github.com/ipfs/go-graphsync/network"

	"verif/harness/dagen"
	"verif/harness/msggen"
	"verif/harness/pbt"
	"verif/harness/scen"
	"verif/harness/sim"
)

var run = pbt.Init("C12")
var outerT *testing.T

func TestMain(m *testing.M) { pbt.Main(m, run) }

// ---------- case ----------

type NodeMut struct {
	K   string      `json:"k"` // del repl blen str int dup wrap
	At  int         `json:"at"`
	N   int         `json:"n"`
	Val *msggen.Any `json:"val,omitempty"`
}

type ByteMut struct {
	K   string `json:"k"` // flip trunc insert setlen dropbyte
	At  int    `json:"at"`
	N   int    `json:"n"`
}

type Frame struct {
	Msg   msggen.Msg `json:"msg"`
	NMuts []NodeMut  `json:"nmuts,omitempty"`
	BMuts []ByteMut  `json:"bmuts,omitempty"`
}

type Case struct {
	Frames []Frame `json:"frames"`
	Live   bool    `json:"live"` // also deliver what decodes to a live node
}

var strPool = []string{"", "n", "c", "u", "x", "p", "m", "d", "s", "Present", "zz", "id", "root", "sel", "reqid", "stat", "meta", "ext", "blk", "req", "rsp", "gs2", "type", "pri", "R", ">", "a", "."}
var intPool = []int64{0, 1, -1, 10, 13, 14, 15, 20, 21, 30, 34, 35, 99, 255, 1 << 31, -(1 << 31) - 1, 1 << 62, -(1 << 62)}

func genFrame(t *rapid.T) Frame {
	f := Frame{Msg: msggen.GenMsg(t)}
	switch rapid.IntRange(0, 5).Draw(t, "mutmode") {
	case 0: // honest
	case 1, 2, 3:
		n := rapid.IntRange(1, 3).Draw(t, "nn")
		for i := 0; i < n; i++ {
			m := NodeMut{K: rapid.SampledFrom([]string{"del", "repl", "blen", "blen", "str", "str", "int", "dup", "wrap"}).Draw(t, "nk"), At: rapid.IntRange(0, 400).Draw(t, "at"), N: rapid.IntRange(0, 40).Draw(t, "n")}
			if m.K == "repl" {
				m.Val = msggen.GenAny(t, 2)
			}
			f.NMuts = append(f.NMuts, m)
		}
	default:
		n := rapid.IntRange(1, 3).Draw(t, "bn")
		for i := 0; i < n; i++ {
			f.BMuts = append(f.BMuts, ByteMut{K: rapid.SampledFrom([]string{"flip", "flip", "trunc", "insert", "setlen", "dropbyte"}).Draw(t, "bk"), At: rapid.IntRange(0, 4000).Draw(t, "bat"), N: rapid.IntRange(0, 255).Draw(t, "bn2")})
		}
	}
	return f
}

func gen(t *rapid.T) Case {
	c := Case{Live: rapid.IntRange(0, 2).Draw(t, "live") == 0}
	n := rapid.SampledFrom([]int{1, 1, 2, 3}).Draw(t, "nframes")
	for i := 0; i < n; i++ {
		c.Frames = append(c.Frames, genFrame(t))
	}
	return c
}

// ---------- generic tree ----------

type gn struct {
	kind datamodel.Kind
	b    bool
	i    int64
	f    float64
	s    string // string or bytes
	l    datamodel.Link
	keys []string
	vals []*gn
}

func toGN(n datamodel.Node) *gn {
	g := &gn{kind: n.Kind()}
	switch n.Kind() {
	case datamodel.Kind_Bool:
		g.b, _ = n.AsBool()
	case datamodel.Kind_Int:
		g.i, _ = n.AsInt()
	case datamodel.Kind_Float:
		g.f, _ = n.AsFloat()
	case datamodel.Kind_String:
		g.s, _ = n.AsString()
	case datamodel.Kind_Bytes:
		b, _ := n.AsBytes()
		g.s = string(b)
	case datamodel.Kind_Link:
		g.l, _ = n.AsLink()
	case datamodel.Kind_Map:
		it := n.MapIterator()
		for !it.Done() {
			k, v, err := it.Next()
			if err != nil {
				break
			}
			ks, _ := k.AsString()
			g.keys = append(g.keys, ks)
			g.vals = append(g.vals, toGN(v))
		}
	case datamodel.Kind_List:
		it := n.ListIterator()
		for !it.Done() {
			_, v, err := it.Next()
			if err != nil {
				break
			}
			g.vals = append(g.vals, toGN(v))
		}
	}
	return g
}

func (g *gn) assemble(na datamodel.NodeAssembler) error {
	switch g.kind {
	case datamodel.Kind_Null:
		return na.AssignNull()
	case datamodel.Kind_Bool:
		return na.AssignBool(g.b)
	case datamodel.Kind_Int:
		return na.AssignInt(g.i)
	case datamodel.Kind_Float:
		return na.AssignFloat(g.f)
	case datamodel.Kind_String:
		return na.AssignString(g.s)
	case datamodel.Kind_Bytes:
		return na.AssignBytes([]byte(g.s))
	case datamodel.Kind_Link:
		return na.AssignLink(g.l)
	case datamodel.Kind_Map:
		ma, err := na.BeginMap(int64(len(g.keys)))
		if err != nil {
			return err
		}
		seen := map[string]bool{}
		for i, k := range g.keys {
			if seen[k] {
				continue
			}
			seen[k] = true
			va, err := ma.AssembleEntry(k)
			if err != nil {
				return err
			}
			if err := g.vals[i].assemble(va); err != nil {
				return err
			}
		}
		return ma.Finish()
	case datamodel.Kind_List:
		la, err := na.BeginList(int64(len(g.vals)))
		if err != nil {
			return err
		}
		for _, v := range g.vals {
			if err := v.assemble(la.AssembleValue()); err != nil {
				return err
			}
		}
		return la.Finish()
	}
	return fmt.Errorf("bad kind")
}

func collect(g *gn, out *[]*gn) {
	*out = append(*out, g)
	for _, v := range g.vals {
		collect(v, out)
	}
}

func applyNodeMut(root *gn, m NodeMut) {
	var all []*gn
	collect(root, &all)
	pick := func(pred func(*gn) bool) *gn {
		var c []*gn
		for _, g := range all {
			if pred(g) {
				c = append(c, g)
			}
		}
		if len(c) == 0 {
			return nil
		}
		return c[m.At%len(c)]
	}
	switch m.K {
	case "del":
		if g := pick(func(g *gn) bool { return (g.kind == datamodel.Kind_Map || g.kind == datamodel.Kind_List) && len(g.vals) > 0 }); g != nil {
			i := m.N % len(g.vals)
			g.vals = append(append([]*gn{}, g.vals[:i]...), g.vals[i+1:]...)
			if g.kind == datamodel.Kind_Map {
				g.keys = append(append([]string{}, g.keys[:i]...), g.keys[i+1:]...)
			}
		}
	case "repl":
		if g := pick(func(g *gn) bool { return g != root }); g != nil && m.Val != nil {
			if n, err := m.Val.Node(); err == nil {
				*g = *toGN(n)
			}
		}
	case "blen":
		if g := pick(func(g *gn) bool { return g.kind == datamodel.Kind_Bytes }); g != nil {
			switch {
			case m.N%3 == 0 && len(g.s) > 0:
				g.s = g.s[:m.N%len(g.s)]
			case m.N%3 == 1:
				g.s += string(make([]byte, 1+m.N%5))
			default:
				g.s = ""
			}
		}
	case "str":
		if g := pick(func(g *gn) bool { return g.kind == datamodel.Kind_String }); g != nil {
			g.s = strPool[m.N%len(strPool)]
		}
	case "int":
		if g := pick(func(g *gn) bool { return g.kind == datamodel.Kind_Int }); g != nil {
			g.i = intPool[m.N%len(intPool)]
		}
	case "dup":
		if g := pick(func(g *gn) bool { return g.kind == datamodel.Kind_List && len(g.vals) > 0 }); g != nil {
			g.vals = append(g.vals, g.vals[m.N%len(g.vals)])
		}
	case "wrap":
		if g := pick(func(g *gn) bool { return g != root }); g != nil {
			inner := *g
			*g = gn{kind: datamodel.Kind_List, vals: []*gn{&inner}}
		}
	}
}

var mh = gsmsgv2.NewMessageHandler()

func frameOf(body []byte) []byte {
	var lb [binary.MaxVarintLen64]byte
	n := binary.PutUvarint(lb[:], uint64(len(body)))
	return append(append([]byte{}, lb[:n]...), body...)
}

// encode renders one frame (length prefix + body) and reports whether it was tampered with.
func (f Frame) encode() (out []byte, honest bool, ok bool) {
	m, err := f.Msg.Build()
	if err != nil {
		return nil, false, false
	}
	var buf bytes.Buffer
	if err := mh.ToNet(peer.ID(""), m, &buf); err != nil {
		return nil, false, false
	}
	enc := buf.Bytes()
	_, vn := binary.Uvarint(enc)
	body := append([]byte{}, enc[vn:]...)
	if len(f.NMuts) > 0 {
		nb := basicnode.Prototype.Any.NewBuilder()
		if err := dagcbor.Decode(nb, bytes.NewReader(body)); err != nil {
			return nil, false, false
		}
		g := toGN(nb.Build())
		for _, mu := range f.NMuts {
			applyNodeMut(g, mu)
		}
		nb2 := basicnode.Prototype.Any.NewBuilder()
		if err := g.assemble(nb2); err != nil {
			return nil, false, false
		}
		var b2 bytes.Buffer
		if err := dagcbor.Encode(nb2.Build(), &b2); err != nil {
			return nil, false, false
		}
		body = b2.Bytes()
	}
	out = frameOf(body)
	for _, mu := range f.BMuts {
		if len(out) == 0 {
			break
		}
		at := mu.At % len(out)
		switch mu.K {
		case "flip":
			out[at] ^= 1 << (mu.N % 8)
		case "trunc":
			out = out[:at]
		case "insert":
			out = append(append(append([]byte{}, out[:at]...), byte(mu.N)), out[at:]...)
		case "dropbyte":
			out = append(append([]byte{}, out[:at]...), out[at+1:]...)
		case "setlen":
			_, vn := binary.Uvarint(out)
			if vn > 0 {
				nl := []uint64{0, 1, uint64(len(out)), uint64(len(out)) * 2, 1 << 20, 1 << 33, 1<<63 - 1}[mu.N%7]
				var lb [binary.MaxVarintLen64]byte
				k := binary.PutUvarint(lb[:], nl)
				out = append(append([]byte{}, lb[:k]...), out[vn:]...)
			}
		}
	}
	return out, len(f.NMuts) == 0 && len(f.BMuts) == 0, true
}

// ---------- fake libp2p pieces ----------

type fakeConn struct {
	network.Conn
	p peer.ID
}

func (c *fakeConn) RemotePeer() peer.ID { return c.p }

type fakeStream struct {
	network.Stream
	r      io.Reader
	conn   *fakeConn
	mu     sync.Mutex
	resets int
	closes int
}

func (s *fakeStream) Read(p []byte) (int, error)        { return s.r.Read(p) }
func (s *fakeStream) Close() error                      { s.mu.Lock(); s.closes++; s.mu.Unlock(); return nil }
func (s *fakeStream) Reset() error                      { s.mu.Lock(); s.resets++; s.mu.Unlock(); return nil }
func (s *fakeStream) SetReadDeadline(time.Time) error   { return nil }
func (s *fakeStream) Protocol() protocol.ID             { return gsnet.ProtocolGraphsync_2_0_0 }
func (s *fakeStream) Conn() network.Conn                { return s.conn }

type fakeNetwork struct{ network.Network }

func (fakeNetwork) Notify(network.Notifiee) {}

type fakeHost struct {
	host.Host
	handler network.StreamHandler
}

func (h *fakeHost) SetStreamHandler(_ protocol.ID, sh network.StreamHandler) { h.handler = sh }
func (h *fakeHost) Network() network.Network                                   { return fakeNetwork{} }
func (h *fakeHost) ConnManager() connmgr.ConnManager                           { return connmgr.NullConnMgr{} }

type recorder struct {
	mu   sync.Mutex
	msgs []gsmsg.GraphSyncMessage
	errs []error
	log  []string
}

type recv struct{ r *recorder }

func (x recv) ReceiveMessage(_ context.Context, p peer.ID, m gsmsg.GraphSyncMessage) {
	x.r.mu.Lock()
	x.r.msgs = append(x.r.msgs, m)
	x.r.log = append(x.r.log, "msg")
	x.r.mu.Unlock()
}
func (x recv) ReceiveError(p peer.ID, err error) {
	x.r.mu.Lock()
	x.r.errs = append(x.r.errs, err)
	x.r.log = append(x.r.log, "err")
	x.r.mu.Unlock()
}
func (x recv) Connected(peer.ID)    {}
func (x recv) Disconnected(peer.ID) {}

// ---------- the checks ----------

// invariants every delivered message must satisfy, whatever bytes produced it
func checkDelivered(m gsmsg.GraphSyncMessage) string {
	for _, b := range m.Blocks() {
		want, err := b.Cid().Prefix().Sum(b.RawData())
		if err != nil || !want.Equals(b.Cid()) {
			return fmt.Sprintf("delivered block is keyed %s but its bytes hash to %s (err %v)", b.Cid(), want, err)
		}
	}
	for _, r := range m.Requests() {
		if n := len(r.ID().Bytes()); n != 16 {
			return fmt.Sprintf("delivered request has a %d-byte id", n)
		}
		_ = r.ID().String()
	}
	for _, r := range m.Responses() {
		if n := len(r.RequestID().Bytes()); n != 16 {
			return fmt.Sprintf("delivered response has a %d-byte request id", n)
		}
		_ = r.RequestID().String()
	}
	return ""
}

type frameClass struct {
	bytes    []byte
	complete bool // the stream holds the whole frame
	decodes  bool
	msg      gsmsg.GraphSyncMessage
	afterLen bool // the stream ends exactly after this frame's length prefix (no body byte at all)
}

// split cuts the stream into frames the way a varint-length-prefixed stream is defined, independently of msgio.
func split(stream []byte) (frames []frameClass) {
	for len(stream) > 0 {
		l, vn := binary.Uvarint(stream)
		if vn <= 0 {
			frames = append(frames, frameClass{bytes: stream})
			return
		}
		if l > uint64(network.MessageSizeMax) || uint64(len(stream)-vn) < l {
			frames = append(frames, frameClass{bytes: stream, afterLen: len(stream) == vn && l > 0 && l <= uint64(network.MessageSizeMax)})
			return
		}
		fb := stream[:vn+int(l)]
		fc := frameClass{bytes: fb, complete: true}
		func() {
			defer func() { _ = recover() }()
			if m, err := mh.FromNet(peer.ID(""), bytes.NewReader(fb)); err == nil {
				fc.decodes, fc.msg = true, m
			}
		}()
		frames = append(frames, fc)
		stream = stream[vn+int(l):]
	}
	return
}

type BytesCase struct {
	B64 string `json:"b64"`
}

// checkStream feeds one stream of bytes to the real stream handler and judges what comes out.
// It returns the reject class, the frames that were delivered, and a failure message ("" = fine).
func checkStream(stream []byte) (class string, good []frameClass, fail string) {
	frames := split(stream)
	var wantMsgs []gsmsg.GraphSyncMessage
	wantErr := false
	for _, f := range frames {
		if f.complete && f.decodes {
			wantMsgs = append(wantMsgs, f.msg)
			continue
		}
		wantErr = true
		break
	}
	class = "accepted"
	if wantErr {
		bad := frames[len(wantMsgs)]
		switch {
		case !bad.complete:
			class = "frame-reject"
		default:
			nb := basicnode.Prototype.Any.NewBuilder()
			_, vn := binary.Uvarint(bad.bytes)
			if dagcbor.Decode(nb, bytes.NewReader(bad.bytes[vn:])) != nil {
				class = "cbor-reject"
			} else {
				class = "schema-reject"
			}
		}
	}
	good = frames[:len(wantMsgs)]
	h := &fakeHost{}
	rec := &recorder{}
	n := gsnet.NewFromLibp2pHost(h)
	n.SetDelegate(recv{rec})
	run1 := func(data []byte) (*fakeStream, string) {
		st := &fakeStream{r: bytes.NewReader(data), conn: &fakeConn{p: scen.ThirdID}}
		var fail string
		func() {
			defer func() {
				if r := recover(); r != nil {
					fail = fmt.Sprintf("the stream handler let a panic escape: %v", r)
				}
			}()
			synctest.Test(outerT, func(t *testing.T) {
				h.handler(st)
				synctest.Wait()
			})
		}()
		return st, fail
	}
	st, fail := run1(stream)
	if fail != "" {
		return
	}
	rec.mu.Lock()
	gotMsgs, gotErrs, log := rec.msgs, rec.errs, append([]string(nil), rec.log...)
	rec.mu.Unlock()
	for _, m := range gotMsgs {
		if msg := checkDelivered(m); msg != "" {
			return class, good, msg
		}
	}
	if len(gotMsgs) != len(wantMsgs) {
		return class, good, fmt.Sprintf("stream of %d frames (%s): %d messages delivered, %d frames precede the first malformed one; log %v", len(frames), class, len(gotMsgs), len(wantMsgs), log)
	}
	for i := range gotMsgs {
		if d := msggen.Diff(wantMsgs[i], gotMsgs[i]); d != "" {
			return class, good, fmt.Sprintf("delivered message %d differs from what the frame decodes to: %s", i, d)
		}
	}
	if wantErr {
		if len(gotErrs) != 1 {
			return class, good, fmt.Sprintf("malformed frame (%s) after %d good ones: %d receive errors reported (want exactly 1); resets %d; log %v", class, len(wantMsgs), len(gotErrs), st.resets, log)
		}
		if st.resets == 0 {
			return class, good, fmt.Sprintf("malformed frame (%s): the stream was not reset", class)
		}
		if len(log) > 0 && log[len(log)-1] != "err" {
			return class, good, fmt.Sprintf("something was delivered after the receive error: %v", log)
		}
	} else if len(gotErrs) != 0 || st.resets != 0 {
		return class, good, fmt.Sprintf("every frame decodes and the stream ends at a frame boundary, but %d receive errors were reported and the stream was reset %d times", len(gotErrs), st.resets)
	}
	// the handler still serves an honest stream afterwards
	honest := msggen.Msg{Reqs: []msggen.Req{{ID: "honest-request-1", Type: "c"}}}
	hm, _ := honest.Build()
	var hb bytes.Buffer
	_ = mh.ToNet(peer.ID(""), hm, &hb)
	before := len(gotMsgs)
	if _, f2 := run1(hb.Bytes()); f2 != "" {
		return class, good, "second, honest stream: " + f2
	}
	rec.mu.Lock()
	after := len(rec.msgs)
	rec.mu.Unlock()
	if after != before+1 {
		return class, good, fmt.Sprintf("after the hostile stream an honest stream was not served (%d messages delivered from it)", after-before)
	}
	return class, good, ""
}

func judge(c Case) *pbt.Verdict {
	v := &pbt.Verdict{}
	var stream []byte
	tampered := false
	for _, f := range c.Frames {
		b, honest, ok := f.encode()
		if !ok {
			v.Skip = true
			return v
		}
		if !honest {
			tampered = true
		}
		stream = append(stream, b...)
	}
	class, good, fail := checkStream(stream)
	v.Label(class)
	v.NonTrivial = tampered && (class == "schema-reject" || class == "accepted")
	if fail != "" {
		return v.Failf("%s", fail)
	}
	// a live node is given everything that decodes
	if c.Live && len(good) > 0 {
		if msg := live(good); msg != "" {
			return v.Failf("%s", msg)
		}
		v.Label("delivered-to-live-node")
	}
	return v
}

func judgeBytes(c BytesCase) *pbt.Verdict {
	v := &pbt.Verdict{}
	data, err := base64.StdEncoding.DecodeString(c.B64)
	if err != nil {
		v.Skip = true
		return v
	}
	_, good, fail := checkStream(data)
	if fail != "" {
		return v.Failf("%s", fail)
	}
	if len(good) > 0 {
		if msg := live(good); msg != "" {
			return v.Failf("%s", msg)
		}
	}
	return v
}

func live(frames []frameClass) string {
	var fail string
	d := dagen.DAG{Blocks: []dagen.Block{{Raw: true, Data: "leaf"}, {Node: &dagen.Val{K: "map", Keys: []string{"a"}, Vals: []*dagen.Val{{K: "link", L: 0}}}}}}
	b, err := d.Build()
	if err != nil {
		return ""
	}
	ro := sim.Run(outerT, func(w *sim.World) {
		node := w.AddInstance(scen.RespID, sim.NewStore(b.Data, true))
		scen.ValidateAll(node)
		client := w.AddInstance(scen.ReqID, sim.NewStore(nil, true))
		w.AddScripted(scen.ThirdID)
		for _, f := range frames {
			w.Net.Connect(scen.ThirdID, scen.RespID)
			if err := w.Net.InjectRaw(scen.ThirdID, scen.RespID, f.bytes); err != nil {
				continue
			}
			w.Net.Deliver(scen.ThirdID, scen.RespID)
			w.Wait()
		}
		w.Quiesce()
		done := make(chan struct{})
		go func() { _ = node.Impl.PeerState(scen.ThirdID); close(done) }()
		w.Wait()
		select {
		case <-done:
		default:
			fail = "the node no longer answers PeerState after the hostile messages"
			return
		}
		res := w.Request(client, scen.RespID, cidlink.Link{Cid: b.Root}, dagen.RecAll(-1).Node())
		w.Quiesce()
		vs, es, rc, ec := res.Snapshot()
		if !rc || !ec || len(es) > 0 || len(vs) < 2 {
			fail = fmt.Sprintf("after the hostile messages an honest request did not complete: %d nodes, errors %v, closed %v/%v", len(vs), es, rc, ec)
		}
		// cancel whatever the hostile messages started, so the bubble can end
		for id := range node.Impl.PeerState(scen.ThirdID).IncomingState.RequestStates {
			_ = node.GS.Cancel(w.Ctx, id)
		}
		w.Quiesce()
	})
	if ro.Panic != "" {
		return "panic: " + ro.Panic
	}
	return fail
}

var def = pbt.Def[Case]{Name: "hostile-stream", Gen: gen, Run: judge, Journal: true}

func TestProp(t *testing.T) {
	outerT = t
	pbt.Check(t, run, def, 10000, 500000)
}

var defBytes = pbt.Def[BytesCase]{Name: "hostile-bytes", Run: judgeBytes}

func TestReplay(t *testing.T) {
	outerT = t
	pbt.Register(run, def)
	pbt.Register(run, defBytes)
	pbt.Register(run, defOverlap)
	run.Replay(t)
}

// seeds for the coverage-guided targets: valid encodings plus hostile constants
func fuzzSeeds(f *testing.F) {
	for i := 0; i < 40; i++ {
		ex := rapid.Just(0).Example(i) // keep rapid linked; the seeds themselves come from the generator below
		_ = ex
		c := rapid.Custom(gen).Example(i)
		var stream []byte
		for _, fr := range c.Frames {
			if b, _, ok := fr.encode(); ok {
				stream = append(stream, b...)
			}
		}
		f.Add(stream)
	}
	for _, b := range [][]byte{{}, {0}, {1}, {1, 0xa0}, {2, 0xa1, 0x63}, {0xff, 0xff, 0xff, 0xff, 0x0f}, {5, 0xa1, 0x63, 'g', 's', '2'}, {0x80}, {10, 0xa1, 0x63, 'g', 's', '2', 0xa1, 0x63, 'r', 'e', 'q'}} {
		f.Add(b)
	}
}

// FuzzStream: any bytes on a stream, through the real stream handler (and a live node for what decodes).
func FuzzStream(f *testing.F) {
	fuzzSeeds(f)
	f.Fuzz(func(t *testing.T, data []byte) {
		outerT = t
		_, good, fail := checkStream(data)
		if fail == "" && len(good) > 0 && len(good) <= 3 {
			fail = live(good)
		}
		if fail != "" {
			saveBytes(data, fail)
			t.Fatal(fail)
		}
	})
}

// FuzzDecode: the decoder alone.
func FuzzDecode(f *testing.F) {
	fuzzSeeds(f)
	f.Fuzz(func(t *testing.T, data []byte) {
		m, err := mh.FromNet(peer.ID(""), bytes.NewReader(data))
		if err == nil {
			if msg := checkDelivered(m); msg != "" {
				saveBytes(data, msg)
				t.Fatal(msg)
			}
		}
	})
}

// saveBytes writes a failing fuzz input as a replay file the driver understands.
func saveBytes(data []byte, msg string) {
	dir := os.Getenv("VERIF_REPLAY_DIR")
	if dir == "" {
		return
	}
	body := fmt.Sprintf(`{"property":"C12","check":"hostile-bytes","message":%q,"case":{"b64":%q}}`, msg, base64.StdEncoding.EncodeToString(data))
	_ = os.WriteFile(filepath.Join(dir, "C12-shard"+os.Getenv("VERIF_SHARD")+".json"), []byte(body), 0o644)
}

var _ = cid.Undef
var _ = graphsync.PartialResponse
