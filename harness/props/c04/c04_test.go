package c04

import (
	"context"
	"errors"
	"fmt"
	"strings"
	"testing"

	blocks "github.com/ipfs/go-block-format"
	"github.com/ipfs/go-cid"
	cidlink "github.com/ipld/go-ipld-prime/linking/cid"
	"github.com/libp2p/go-libp2p/core/peer"
	"pgregory.net/rapid"

	"github.com/ipfs/go-graphsync"
	gsimpl "github.com/ipfs/go-graphsync/impl"
	gsmsg "github.com/ipfs/go-graphsync/message"

	"verif/harness/dagen"
	"verif/harness/pbt"
	"verif/harness/scen"
	"verif/harness/sim"
)

var run = pbt.Init("C04")
var outerT *testing.T

func TestMain(m *testing.M) { pbt.Main(m, run) }

type Action struct {
	Step int    `json:"step"` // before script message Step (>= len(script): after the script)
	Kind string `json:"kind"` // ctxcancel apicancel pause unpause disconnect
}

type Case struct {
	Base           scen.Base `json:"base"`
	Chunk          int       `json:"chunk"`  // metadata entries per honest message
	Cut            int       `json:"cut"`    // honest messages played before the ending
	Ending         int       `json:"ending"` // 0 = silence, else index into endings
	Actions        []Action  `json:"actions"`
	RespHookErr    int       `json:"resp_hook_err"`  // response hook errors on the n-th response (1-based, 0 = never)
	BlockHookErr   int       `json:"block_hook_err"` // block hook errors on the n-th block
	BlockHookPause int       `json:"block_hook_pause"`
	BlockHookStall int       `json:"block_hook_stall"` // the block hook blocks at the n-th block until a "release" action (later messages are buffered meanwhile)
	CancelInHook   bool      `json:"cancel_in_hook"` // the caller's context ends while the request is being registered (from the outgoing-request hook)
	SendFails      int       `json:"send_fails"` // first n SendMsg calls of the requestor fail
	Retries        int       `json:"retries"`
	ConnectFails   bool      `json:"connect_fails"`
}

var endings = []graphsync.ResponseStatusCode{0, graphsync.RequestCompletedFull, graphsync.RequestCompletedPartial, graphsync.RequestRejected, graphsync.RequestFailedBusy, graphsync.RequestFailedUnknown, graphsync.RequestFailedLegal, graphsync.RequestFailedContentNotFound, graphsync.RequestCancelled}

func gen(t *rapid.T) Case {
	c := Case{Base: scen.GenBase(t, run.N(10, 24))}
	c.Chunk = rapid.IntRange(1, 3).Draw(t, "chunk")
	c.Cut = rapid.IntRange(0, 8).Draw(t, "cut")
	c.Ending = rapid.IntRange(0, len(endings)-1).Draw(t, "ending")
	n := rapid.IntRange(0, 3).Draw(t, "nactions")
	for i := 0; i < n; i++ {
		c.Actions = append(c.Actions, Action{Step: rapid.IntRange(0, 9).Draw(t, "step"), Kind: rapid.SampledFrom([]string{"ctxcancel", "apicancel", "pause", "unpause", "disconnect", "ctxcancel", "apicancel"}).Draw(t, "akind")})
	}
	if rapid.IntRange(0, 4).Draw(t, "rhe") == 0 {
		c.RespHookErr = rapid.IntRange(1, 4).Draw(t, "rhen")
	}
	if rapid.IntRange(0, 4).Draw(t, "bhe") == 0 {
		c.BlockHookErr = rapid.IntRange(1, 5).Draw(t, "bhen")
	}
	if rapid.IntRange(0, 4).Draw(t, "bhp") == 0 {
		c.BlockHookPause = rapid.IntRange(1, 5).Draw(t, "bhpn")
	}
	if rapid.IntRange(0, 2).Draw(t, "bhs") == 0 {
		c.BlockHookStall = rapid.IntRange(1, 4).Draw(t, "bhsn")
		if rapid.Bool().Draw(t, "pauseafter") {
			c.BlockHookPause = c.BlockHookStall + rapid.IntRange(0, 2).Draw(t, "pausegap")
		}
		c.Actions = append(c.Actions, Action{Step: rapid.IntRange(1, 9).Draw(t, "relstep"), Kind: "release"})
	}
	if rapid.IntRange(0, 5).Draw(t, "sf") == 0 {
		c.SendFails = rapid.IntRange(1, 3).Draw(t, "sfn")
	}
	c.CancelInHook = rapid.IntRange(0, 9).Draw(t, "cih") == 0
	c.Retries = rapid.IntRange(1, 2).Draw(t, "retries")
	c.ConnectFails = rapid.IntRange(0, 11).Draw(t, "cf") == 0
	return c
}

type smsg struct {
	md     []gsmsg.GraphSyncLinkMetadatum
	blocks []cid.Cid
	status graphsync.ResponseStatusCode
}

func judge(c Case) *pbt.Verdict {
	v := &pbt.Verdict{}
	if !c.Base.Sel.WellFormed() {
		v.Skip = true
		return v
	}
	b, err := c.Base.DAG.Build()
	if err != nil {
		v.Skip = true
		return v
	}
	sel := dagen.Canonical(c.Base.Sel.Node())
	full := dagen.RefFull(b, sel)
	if full.Err != nil {
		v.Skip = true
		return v
	}
	split := append(dagen.Split(nil), c.Base.Split...)
	for len(split) < len(b.Order) {
		split = append(split, 0)
	}
	reqStore, _ := b.Stores(split)
	// honest script, cut, ending
	var script []smsg
	cur := smsg{status: graphsync.PartialResponse}
	sent := map[cid.Cid]bool{}
	for _, l := range full.Loads {
		cur.md = append(cur.md, gsmsg.GraphSyncLinkMetadatum{Link: l.Cid, Action: graphsync.LinkActionPresent})
		if !sent[l.Cid] {
			sent[l.Cid] = true
			cur.blocks = append(cur.blocks, l.Cid)
		}
		if len(cur.md) >= c.Chunk {
			script = append(script, cur)
			cur = smsg{status: graphsync.PartialResponse}
		}
	}
	if len(cur.md) > 0 {
		script = append(script, cur)
	}
	if c.Cut < len(script) {
		script = script[:c.Cut]
	}
	ending := endings[c.Ending%len(endings)]
	if ending != 0 {
		script = append(script, smsg{status: ending})
	}

	myID, _ := graphsync.ParseRequestID([]byte("c04-request-id-0"))
	var visits []dagen.Visit
	var errs []error
	var rc, ec bool
	callerCancelledLive := false // caller cancelled while the channels were still open
	cancelAfterCause := false    // ... but another terminal cause (failure status, hook error) had already occurred: the first cause may be the one reported
	terminalDelivered := false   // a terminal status reached the requestor while the request was live
	failureDeliveredClean := graphsync.ResponseStatusCode(0)
	localCause := false // a local terminal cause (cancel, hook error) occurred
	requestSent := false
	var cancelOnWire bool
	var repaused string
	pauseCauses := 0
	states := map[string]bool{}
	newAttempts := func(w *sim.World) int {
		n := 0
		for _, e := range w.Net.Attempts {
			if e.From == scen.ReqID {
				for _, r := range e.Msg.Requests() {
					if r.Type() == graphsync.RequestTypeNew {
						n++
					}
				}
			}
		}
		return n
	}
	newsAtTerminal := -1
	apiCalls, apiReturned := 0, 0
	ro := sim.Run(outerT, func(w *sim.World) {
		failsLeft := c.SendFails
		w.Net.SendPolicy = func(from, to peer.ID, n int, m gsmsg.GraphSyncMessage) sim.SendOutcome {
			if from == scen.ReqID && failsLeft > 0 {
				failsLeft--
				return sim.SendFail
			}
			return sim.SendOK
		}
		if c.ConnectFails {
			w.Net.ConnectPolicy = func(from, to peer.ID) error { return errors.New("sim: cannot connect") }
		}
		rq := w.AddInstance(scen.ReqID, sim.NewStore(reqStore, true), gsimpl.MessageSendRetries(c.Retries))
		resp := w.AddScripted(scen.RespID)
		nResp, nBlock := 0, 0
		causesAtUnpause, unpaused := 0, false
		stall := make(chan struct{})
		stallOpen := false
		release := func() {
			if !stallOpen {
				stallOpen = true
				close(stall)
			}
		}
		rq.GS.RegisterIncomingResponseHook(func(p peer.ID, r graphsync.ResponseData, ha graphsync.IncomingResponseHookActions) {
			nResp++
			if nResp == c.RespHookErr {
				localCause = true
				ha.TerminateWithError(errors.New("response hook says no"))
			}
		})
		rq.GS.RegisterIncomingBlockHook(func(p peer.ID, r graphsync.ResponseData, bd graphsync.BlockData, ha graphsync.IncomingBlockHookActions) {
			nBlock++
			if nBlock == c.BlockHookErr {
				localCause = true
				ha.TerminateWithError(errors.New("block hook says no"))
			}
			if nBlock == c.BlockHookPause {
				pauseCauses++
				ha.PauseRequest()
			}
			if nBlock == c.BlockHookStall && !stallOpen {
				<-stall
			}
		})
		ctx, cancelEarly := context.WithCancel(context.WithValue(w.Ctx, graphsync.RequestIDContextKey{}, myID))
		defer cancelEarly()
		if c.CancelInHook {
			rq.GS.RegisterOutgoingRequestHook(func(p peer.ID, r graphsync.RequestData, ha graphsync.OutgoingRequestHookActions) {
				callerCancelledLive = true
				localCause = true
				states["cancel-during-registration"] = true
				cancelEarly()
			})
		}
		res := w.RequestCtx(ctx, rq, scen.RespID, cidlink.Link{Cid: b.Root}, c.Base.Sel.Node())
		w.Quiesce()
		live := func() bool {
			_, _, a, b := res.Snapshot()
			return !a || !b
		}
		noteState := func(tag string) {
			st, ok := rq.Impl.PeerState(scen.RespID).OutgoingState.RequestStates[myID]
			if ok {
				states[tag+"-"+st.String()] = true
			} else if live() {
				states[tag+"-terminating"] = true
			}
		}
		// one pause per pause command: once an Unpause has succeeded, the request may only be found paused
		// again if a pause was requested (API call accepted, or the block hook's PauseRequest) since then
		unpause := func() {
			if rq.GS.Unpause(w.Ctx, myID) == nil {
				unpaused, causesAtUnpause = true, pauseCauses
			}
		}
		checkRepause := func(where string) {
			if st, ok := rq.Impl.PeerState(scen.RespID).OutgoingState.RequestStates[myID]; ok && st == graphsync.Paused && unpaused && pauseCauses == causesAtUnpause && repaused == "" {
				repaused = where
			}
		}
		act := func(a Action) {
			switch a.Kind {
			case "ctxcancel":
				if live() && (localCause || terminalDelivered) && !callerCancelledLive {
					cancelAfterCause = true
				}
				if live() {
					callerCancelledLive = true
					localCause = true
					noteState("cancel")
				}
				res.Cancel()
			case "apicancel":
				wasLive := live()
				if wasLive && (localCause || terminalDelivered) && !callerCancelledLive {
					cancelAfterCause = true
				}
				if wasLive {
					noteState("cancel")
					callerCancelledLive = true
					localCause = true
				}
				apiCalls++
				go func() {
					_ = rq.GS.Cancel(w.Ctx, myID)
					apiReturned++
				}()
				w.Quiesce()
			case "pause":
				if rq.GS.Pause(w.Ctx, myID) == nil {
					pauseCauses++
				}
			case "unpause":
				unpause()
			case "disconnect":
				w.Net.Disconnect(scen.ReqID, scen.RespID)
			case "release":
				release()
			}
			w.Quiesce()
			checkRepause("after action " + a.Kind)
		}
		for step := 0; step <= len(script); step++ {
			for _, a := range c.Actions {
				if a.Step == step || (step == len(script) && a.Step > step) {
					act(a)
				}
			}
			if step == len(script) {
				break
			}
			m := script[step]
			// a responder only answers a request it has received
			got := false
			for _, e := range resp.Received {
				for _, r := range e.Msg.Requests() {
					if r.Type() == graphsync.RequestTypeNew {
						got = true
					}
				}
			}
			if !got {
				continue
			}
			blks := map[cid.Cid]blocks.Block{}
			for _, cc := range m.blocks {
				blk, _ := blocks.NewBlockWithCid(b.Data[cc], cc)
				blks[cc] = blk
			}
			if isTerminal(m.status) && live() {
				noteState("terminal-status")
				terminalDelivered = true
				newsAtTerminal = newAttempts(w)
				if isFailure(m.status) && !localCause && !(c.RespHookErr > 0 && nResp+1 == c.RespHookErr) {
					failureDeliveredClean = m.status
				}
			}
			rsp := gsmsg.NewResponse(myID, m.status, m.md)
			if err := w.Net.Inject(scen.RespID, scen.ReqID, gsmsg.NewMessage(nil, map[graphsync.RequestID]gsmsg.GraphSyncResponse{myID: rsp}, blks)); err == nil {
				w.Quiesce()
				checkRepause(fmt.Sprintf("after response message %d", step))
			}
		}
		release()
		w.Quiesce()
		checkRepause("after the hook stall was released")
		// fairness premise: whatever is paused gets unpaused -- except a request its caller has
		// cancelled, which must end without further help
		for i := 0; i < 3 && !callerCancelledLive; i++ {
			if st, ok := rq.Impl.PeerState(scen.RespID).OutgoingState.RequestStates[myID]; ok && st == graphsync.Paused {
				unpause()
				w.Quiesce()
				checkRepause("in the closing phase")
			}
		}
		w.Quiesce()
		visits, errs, rc, ec = res.Snapshot()
		if terminalDelivered && newAttempts(w) > newsAtTerminal {
			// a resumed request asked the responder again after that terminal status: a new
			// exchange began, for which the scripted responder stays silent -- premise void
			terminalDelivered = false
			states["re-requested-after-terminal"] = true
		}
		for _, e := range resp.Received {
			for _, r := range e.Msg.Requests() {
				if r.Type() == graphsync.RequestTypeNew {
					requestSent = true
				}
			}
		}
		for _, e := range w.Net.Attempts {
			if e.From == scen.ReqID && e.To == scen.RespID {
				for _, r := range e.Msg.Requests() {
					if r.Type() == graphsync.RequestTypeCancel && r.ID() == myID {
						cancelOnWire = true
					}
				}
			}
		}
	})
	_ = visits
	for s := range states {
		v.Label(s)
	}
	if requestSent {
		v.Label("request-on-wire")
	}
	v.NonTrivial = len(states) > 0
	v.Note = fmt.Sprintf("sel=%s script=%d ending=%s actions=%v", c.Base.Sel, len(script), ending, c.Actions)
	if ro.Panic != "" {
		return v.Failf("panic: %s", ro.Panic)
	}
	if repaused != "" {
		return v.Failf("the request was found paused again %s although no pause had been requested since the last successful Unpause (pause commands so far: %d)", repaused, pauseCauses)
	}
	if pauseCauses >= 2 {
		v.Label("several-pause-commands")
	}
	if (terminalDelivered || callerCancelledLive) && (!rc || !ec) {
		return v.Failf("terminal status delivered=%v, caller cancelled=%v, but at final quiescence channels are resp-closed=%v err-closed=%v (errs=%v)", terminalDelivered, callerCancelledLive, rc, ec, errs)
	}
	if apiReturned != apiCalls {
		return v.Failf("%d of %d Cancel() API calls had not returned at final quiescence", apiCalls-apiReturned, apiCalls)
	}
	if callerCancelledLive {
		found := false
		for _, e := range errs {
			if _, ok := e.(graphsync.RequestClientCancelledErr); ok {
				found = true
			}
		}
		if !found && !cancelAfterCause {
			return v.Failf("caller cancelled a live request but no RequestClientCancelledErr was reported: errs=%v", errs)
		}
		if cancelAfterCause {
			v.Label("cancel-after-another-terminal-cause")
		}
		if !cancelOnWire && !c.ConnectFails {
			return v.Failf("caller cancelled a live request but no Cancel for it was handed to the network")
		}
	}
	if failureDeliveredClean != 0 && !callerCancelledLive {
		found := false
		for _, e := range errs {
			if identifies(e, failureDeliveredClean) {
				found = true
			}
		}
		if !found {
			return v.Failf("failure status %s delivered to a live, uncancelled request but no error identifying it among %v", failureDeliveredClean, errs)
		}
	}
	return v
}

// the harness's own reading of the status table (not the implementation's helpers)
func isFailure(s graphsync.ResponseStatusCode) bool { return s >= 30 && s <= 35 }
func isTerminal(s graphsync.ResponseStatusCode) bool {
	return s == 20 || s == 21 || isFailure(s)
}

// identifies reports whether err is the terminal error that names status s.
func identifies(err error, s graphsync.ResponseStatusCode) bool {
	switch s {
	case 31:
		_, ok := err.(graphsync.RequestFailedBusyErr)
		return ok
	case 32:
		_, ok := err.(graphsync.RequestFailedUnknownErr)
		return ok
	case 33:
		_, ok := err.(graphsync.RequestFailedLegalErr)
		return ok
	case 34:
		_, ok := err.(graphsync.RequestFailedContentNotFoundErr)
		return ok
	case 35:
		_, ok := err.(graphsync.RequestCancelledErr)
		return ok
	case 30:
		// no dedicated type exists for "rejected": any error naming the code or the status is accepted
		return strings.Contains(err.Error(), "30") || strings.Contains(strings.ToLower(err.Error()), "reject")
	}
	return false
}

var def = pbt.Def[Case]{Name: "requestor-lifecycle", Gen: gen, Run: judge, Journal: true}

func TestProp(t *testing.T) {
	outerT = t
	pbt.Check(t, run, def, 10000, 800000)
}

func TestReplay(t *testing.T) {
	outerT = t
	pbt.Register(run, def)
	run.Replay(t)
}
