package c20

import (
	"fmt"
	"os"
	"strings"
	"testing"

	"pgregory.net/rapid"

	"verif/harness/dagen"
	"verif/harness/pbt"
	"verif/harness/scen/duo"
)

var run = pbt.Init("C20")
var outerT *testing.T

func TestMain(m *testing.M) { pbt.Main(m, run) }

const kCross = "C20-cross-request-dedup-before-stored"

var opKinds = []string{"deliver", "deliver", "deliver", "deliver", "start", "start", "sgate", "qgate", "tick"}

func gen(t *rapid.T) duo.Case {
	d := dagen.GenDAG(t, dagen.GenOpts{MaxBlocks: run.N(10, 24), MaxDepth: 2})
	c := duo.Case{DAG: d, Sel: dagen.RecAll(int64(rapid.SampledFrom([]int{-1, -1, 3, 8}).Draw(t, "lim")))}
	// the responder holds the whole DAG (so the two sides' traversals agree and the skip-count finding of C02
	// cannot interfere); the requestor holds a generated subset
	mode := rapid.IntRange(0, 3).Draw(t, "reqholds")
	for range d.Blocks {
		p := 2
		if mode == 1 && rapid.IntRange(0, 3).Draw(t, "has") == 0 {
			p = 3
		}
		if mode == 2 && rapid.IntRange(0, 1).Draw(t, "has") == 0 {
			p = 3
		}
		c.Split = append(c.Split, p)
	}
	n := rapid.IntRange(2, 3).Draw(t, "nreqs")
	keyed := rapid.IntRange(0, 3).Draw(t, "keyed") // 0: every request has a dedup key (1 or 2); 1: some have, some use the default scope; else none
	for i := 0; i < n; i++ {
		r := duo.ReqSpec{Prio: rapid.IntRange(0, 2).Draw(t, "prio")}
		if rapid.IntRange(0, 3).Draw(t, "subroot") == 0 {
			r.Root = rapid.IntRange(1, 3).Draw(t, "root")
		}
		if rapid.IntRange(0, 2).Draw(t, "hassg") == 0 {
			r.RespGateAt = rapid.IntRange(1, 6).Draw(t, "sg")
		}
		if rapid.IntRange(0, 5).Draw(t, "hasqg") == 0 {
			r.ReqGateAt = rapid.IntRange(1, 3).Draw(t, "qg")
		}
		if rapid.IntRange(0, 2).Draw(t, "haswg") == 0 {
			r.ReqWGateAt = rapid.IntRange(1, 5).Draw(t, "wg")
		}
		switch keyed {
		case 0:
			r.DedupKey = rapid.IntRange(1, 2).Draw(t, "key")
		case 1:
			r.DedupKey = rapid.IntRange(0, 2).Draw(t, "key")
		}
		if r.DedupKey > 0 && rapid.IntRange(0, 2).Draw(t, "hasdns") == 0 {
			r.DNS = rapid.SliceOfN(rapid.IntRange(0, len(d.Blocks)-1), 1, 4).Draw(t, "dns")
		}
		c.Reqs = append(c.Reqs, r)
	}
	earlierCancelled := rapid.IntRange(0, 5).Draw(t, "earlier-cancelled") == 0
	if earlierCancelled {
		// history: request 0 was paused by the responder after some blocks and then cancelled by the
		// requestor before the others start; what it was sent must not count against them afterwards
		c.Reqs[0].RespPauseAt, c.Reqs[0].RespGateAt, c.Reqs[0].ReqGateAt, c.Reqs[0].ReqWGateAt = rapid.IntRange(2, 4).Draw(t, "sp0"), 0, 0, 0
		if rapid.Bool().Draw(t, "slow0") {
			c.Reqs[0].ReqGateAt = 1 // a slow consumer: what arrives after its first block is not stored when it cancels
		}
		c.Ops = append(c.Ops, duo.Op{K: "start", R: 0})
		for k := rapid.IntRange(3, 9).Draw(t, "warm0"); k > 0; k-- {
			c.Ops = append(c.Ops, duo.Op{K: "deliver", N: rapid.IntRange(0, 1).Draw(t, "link")})
		}
		c.Ops = append(c.Ops, duo.Op{K: "qcancel", R: 0})
		for k := rapid.IntRange(1, 4).Draw(t, "cool0"); k > 0; k-- {
			c.Ops = append(c.Ops, duo.Op{K: "deliver", N: rapid.IntRange(0, 1).Draw(t, "link")})
		}
	}
	switch rapid.IntRange(0, 2).Draw(t, "startmode") {
	case 0: // all at once
		for i := 0; i < n; i++ {
			c.Ops = append(c.Ops, duo.Op{K: "start", R: i})
		}
	case 1: // staggered: each later request starts after the earlier ones have made some progress
		for i := 0; i < n; i++ {
			c.Ops = append(c.Ops, duo.Op{K: "start", R: i})
			for k := rapid.IntRange(1, 7).Draw(t, "progress"); k > 0; k-- {
				c.Ops = append(c.Ops, duo.Op{K: "deliver", N: rapid.IntRange(0, 1).Draw(t, "link")})
			}
		}
	}
	c.Ops = append(c.Ops, duo.GenOps(t, n, 24, opKinds)...)
	c.MaxOut = rapid.SampledFrom([]int{0, 0, 1, 2}).Draw(t, "maxout")
	c.MaxIn = rapid.SampledFrom([]int{0, 1, 1, 2}).Draw(t, "maxin")
	return c
}

func judge(c duo.Case) *pbt.Verdict {
	v := &pbt.Verdict{}
	got := duo.Run(outerT, c)
	if got.Skip {
		v.Skip = true
		return v
	}
	if got.Panic != "" {
		return v.Failf("panic: %s", got.Panic)
	}
	cross := false
	for i := range c.Reqs {
		if got.CrossDedup[i] {
			cross = true
		}
		if got.AtRisk[i] && run.Known(kCross) {
			v.Excluded = kCross
			return v
		}
	}
	if cross {
		v.Label("cross-request-dedup-happened")
	}
	keyed, unkeyed := false, false
	for _, r := range c.Reqs {
		if r.DedupKey > 0 {
			keyed = true
		} else {
			unkeyed = true
		}
	}
	if keyed {
		v.Label("dedup-by-key-with-own-stores")
	}
	if keyed && unkeyed {
		v.Label("keyed-and-default-scope-requests-together")
	}
	v.NonTrivial = cross
	cancelled := map[int]bool{}
	for _, op := range c.Ops {
		if op.K == "qcancel" {
			cancelled[op.R%len(c.Reqs)] = true
		}
	}
	if len(cancelled) > 0 {
		v.Label("an-earlier-request-was-cancelled-while-paused")
	}
	for i, spec := range c.Reqs {
		if cancelled[i] {
			continue // a cancelled request has no run-alone outcome to equal
		}
		alone := duo.Run(outerT, duo.Case{DAG: c.DAG, Sel: c.Sel, Split: c.Split, Reqs: []duo.ReqSpec{{Root: spec.Root, DedupKey: spec.DedupKey, DNS: spec.DNS}}, Ops: []duo.Op{{K: "start"}}})
		if alone.Panic != "" {
			return v.Failf("panic in the run-alone reference: %s", alone.Panic)
		}
		a, g := alone.Reqs[0], got.Reqs[i]
		if !a.RespClosed || !a.ErrClosed {
			v.Label("run-alone-did-not-finish")
			continue
		}
		if a.Key() != g.Key() {
			if os.Getenv("VERIF_TRACE") != "" {
				fmt.Printf("=== request %d alone ===\n%s\n=== concurrent ===\n%s\n", i, a.Key(), g.Key())
			}
			return v.Failf("request %d delivered something else than when run alone: %s", i, diff(a.Key(), g.Key()))
		}
		// every block the request stores alone is stored in the concurrent run too
		aloneStore, gotStore := alone.Store, got.Store
		if spec.DedupKey > 0 {
			aloneStore, gotStore = alone.KeyStores[spec.DedupKey], got.KeyStores[spec.DedupKey]
		}
		for cc := range aloneStore {
			if _, ok := gotStore[cc]; !ok {
				return v.Failf("request %d alone stores block %s, which is absent from its store after the concurrent run", i, cc)
			}
		}
	}
	return v
}

func diff(a, b string) string {
	la, lb := strings.Split(a, "\n"), strings.Split(b, "\n")
	for i := 0; i < len(la) || i < len(lb); i++ {
		var x, y string
		if i < len(la) {
			x = la[i]
		}
		if i < len(lb) {
			y = lb[i]
		}
		if x != y {
			return fmt.Sprintf("first difference at line %d (of %d vs %d):\n  alone:      %s\n  concurrent: %s", i, len(la), len(lb), x, y)
		}
	}
	return "(no difference)"
}

var def = pbt.Def[duo.Case]{Name: "concurrent-vs-alone", Gen: gen, Run: judge}

func TestProp(t *testing.T) {
	outerT = t
	pbt.Check(t, run, def, 4000, 150000)
}

func TestReplay(t *testing.T) {
	outerT = t
	pbt.Register(run, def)
	run.Replay(t)
}
