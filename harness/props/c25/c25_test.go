package c25

import (
	"fmt"
	"os"
	"sync"
	"testing"
	"time"

	"github.com/ipld/go-ipld-prime/node/basicnode"
	"github.com/libp2p/go-libp2p/core/peer"
	"pgregory.net/rapid"

	"github.com/ipfs/go-graphsync"
	gsimpl "github.com/ipfs/go-graphsync/impl"
	gsmsg "github.com/ipfs/go-graphsync/message"

	"verif/harness/dagen"
	"verif/harness/pbt"
	"verif/harness/scen"
	"verif/harness/sim"
)

var run = pbt.Init("C25")
var outerT *testing.T

func TestMain(m *testing.M) { pbt.Main(m, run) }

const (
	kLoop    = "C25-loop-reserves-memory-for-full-peer"
	kWorkers = "C25-stalled-peer-holds-every-worker"
)

// Op is applied after the stalled peer's allowance is exhausted.
type Op struct {
	Peer string `json:"peer"` // "S" (stalled) or "H" (healthy)
	K    string `json:"k"`    // new newext cancelmsg updatemsg apipause apiunpause apiunpauseext apiupdate apicancel tick disconnect (S only)
	R    int    `json:"r"`
}

type Case struct {
	Blocks   int  `json:"blocks"`    // chain length served to everybody
	BlockSz  int  `json:"block_sz"`  // payload bytes per block
	PerPeer  int  `json:"per_peer"`  // MaxMemoryPerPeerResponder
	Total    int  `json:"total"`     // MaxMemoryResponder (0 = default)
	Workers  int  `json:"workers"`   // MaxInProgressIncomingRequests
	PeerLim  int  `json:"peer_lim"`  // MaxInProgressIncomingRequestsPerPeer (0 = unset)
	SReqs    int  `json:"s_reqs"`    // requests the stalled peer has in progress before the healthy traffic
	HPauseAt int  `json:"h_pause_at"` // the healthy peer's first response pauses itself at this block (0 = never); it is unpaused by an update
	BlockExt bool `json:"block_ext"` // the outgoing-block hook sends extension data with every healthy block
	Ops      []Op `json:"ops"`
}

func gen(t *rapid.T) Case {
	c := Case{Blocks: rapid.IntRange(3, 8).Draw(t, "blocks"), BlockSz: rapid.SampledFrom([]int{60, 150, 400}).Draw(t, "bsz")}
	c.PerPeer = c.BlockSz * rapid.IntRange(1, 3).Draw(t, "permul") + 80
	if rapid.IntRange(0, 3).Draw(t, "hastotal") == 0 {
		c.Total = c.PerPeer * 3
	}
	c.Workers = rapid.SampledFrom([]int{2, 3, 4, 6}).Draw(t, "workers")
	c.PeerLim = rapid.SampledFrom([]int{0, 0, 1, 2}).Draw(t, "peerlim")
	c.SReqs = rapid.IntRange(1, 2).Draw(t, "sreqs")
	if rapid.IntRange(0, 2).Draw(t, "hpause") == 0 {
		c.HPauseAt = rapid.IntRange(1, 3).Draw(t, "hpauseat")
	}
	c.BlockExt = rapid.IntRange(0, 2).Draw(t, "blockext") == 0
	n := rapid.IntRange(2, 10).Draw(t, "nops")
	hk := []string{"new", "new", "newext", "cancelmsg", "updatemsg", "apipause", "apiunpause", "apiunpauseext", "apiupdate", "apicancel", "tick"}
	sk := []string{"new", "cancelmsg", "cancelmsg", "apipause", "apipause", "apiunpause", "apicancel", "apicancel", "newext", "updatemsg", "apiunpauseext", "apiupdate", "disconnect"}
	hasH := false
	for i := 0; i < n; i++ {
		op := Op{R: rapid.IntRange(0, 3).Draw(t, "r")}
		if rapid.IntRange(0, 3).Draw(t, "who") == 0 {
			op.Peer, op.K = "S", rapid.SampledFrom(sk).Draw(t, "sk")
		} else {
			op.Peer, op.K = "H", rapid.SampledFrom(hk).Draw(t, "hk")
			if op.K == "new" || op.K == "newext" {
				hasH = true
			}
		}
		c.Ops = append(c.Ops, op)
	}
	if !hasH {
		c.Ops = append(c.Ops, Op{Peer: "H", K: "new", R: 0})
	}
	return c
}

var (
	peerS = peer.ID("stalled-peer")
	peerH = scen.ReqID
)

func rid(pfx byte, i int) graphsync.RequestID {
	b := []byte("c25-request-0-00")
	b[12], b[15] = pfx, byte('0'+i%10)
	id, _ := graphsync.ParseRequestID(b)
	return id
}

func chain(n, sz int) dagen.DAG {
	pad := make([]byte, sz)
	for i := range pad {
		pad[i] = 'x'
	}
	d := dagen.DAG{Blocks: []dagen.Block{{Raw: true, Data: "leaf" + string(pad)}}}
	for k := 1; k < n; k++ {
		d.Blocks = append(d.Blocks, dagen.Block{Node: &dagen.Val{K: "map", Keys: []string{"next", "pad", "n"}, Vals: []*dagen.Val{{K: "link", L: k - 1}, {K: "str", S: string(pad)}, {K: "int", I: int64(k)}}}})
	}
	return d
}

// knownClasses computes, from the case alone, which listed findings' classes it belongs to.
func knownClasses(c Case) []string {
	var out []string
	workers := c.SReqs >= c.Workers && (c.PeerLim == 0 || c.PeerLim >= c.Workers)
	loop := false
	sNew := c.SReqs
	for _, op := range c.Ops {
		if op.Peer != "S" {
			continue
		}
		switch op.K {
		case "newext", "apiupdate", "apiunpauseext", "updatemsg":
			// the response-manager loop itself reserves memory for extension data for the full peer
			// (request-hook data, SendUpdate, Unpause with extensions, update-hook data for a paused response)
			loop = true
		}
		if op.K == "new" || op.K == "newext" {
			sNew++
			if sNew >= c.Workers && (c.PeerLim == 0 || c.PeerLim >= c.Workers) {
				workers = true
			}
		}
	}
	if workers {
		out = append(out, kWorkers)
	}
	if loop {
		out = append(out, kLoop)
	}
	return out
}

func judge(c Case) *pbt.Verdict {
	v := &pbt.Verdict{}
	for _, k := range knownClasses(c) {
		if run.Known(k) {
			v.Excluded = k
			return v
		}
	}
	b, err := chain(c.Blocks, c.BlockSz).Build()
	if err != nil {
		v.Skip = true
		return v
	}
	sel := dagen.RecAll(-1).Node()
	var mu sync.Mutex
	completed := map[graphsync.RequestID]graphsync.ResponseStatusCode{}
	cancelled := map[graphsync.RequestID]bool{}
	hNew := map[int]bool{}
	hCancelled := map[int]bool{}
	var apiHung []string
	exhausted := false
	var finalStates string
	ro := sim.Run(outerT, func(w *sim.World) {
		w.Net.SendPolicy = func(from, to peer.ID, n int, m gsmsg.GraphSyncMessage) sim.SendOutcome {
			if to == peerS {
				return sim.SendBlock // the stalled peer never drains
			}
			return sim.SendOK
		}
		opts := []gsimpl.Option{gsimpl.MaxMemoryPerPeerResponder(uint64(c.PerPeer)), gsimpl.MaxInProgressIncomingRequests(uint64(c.Workers))}
		if c.Total > 0 {
			opts = append(opts, gsimpl.MaxMemoryResponder(uint64(c.Total)))
		}
		if c.PeerLim > 0 {
			opts = append(opts, gsimpl.MaxInProgressIncomingRequestsPerPeer(uint64(c.PeerLim)))
		}
		rs := w.AddInstance(scen.RespID, sim.NewStore(b.Data, true), opts...)
		w.AddScripted(peerS)
		w.AddScripted(peerH)
		rs.GS.RegisterIncomingRequestHook(func(p peer.ID, rd graphsync.RequestData, ha graphsync.IncomingRequestHookActions) {
			ha.ValidateRequest()
			if _, ok := rd.Extension("c25/wantext"); ok {
				ha.SendExtensionData(graphsync.ExtensionData{Name: "c25/hello", Data: basicnode.NewString("extension data sent by the request hook")})
			}
		})
		hBlocks := map[graphsync.RequestID]int{}
		rs.GS.RegisterOutgoingBlockHook(func(p peer.ID, rd graphsync.RequestData, bd graphsync.BlockData, ha graphsync.OutgoingBlockHookActions) {
			if p != peerH {
				return
			}
			mu.Lock()
			hBlocks[rd.ID()]++
			n := hBlocks[rd.ID()]
			mu.Unlock()
			if c.BlockExt {
				ha.SendExtensionData(graphsync.ExtensionData{Name: "c25/blockext", Data: basicnode.NewString("per block")})
			}
			if rd.ID() == rid('H', 0) && c.HPauseAt > 0 && n == c.HPauseAt {
				ha.PauseResponse()
			}
		})
		rs.GS.RegisterRequestUpdatedHook(func(p peer.ID, rd graphsync.RequestData, upd graphsync.RequestData, ha graphsync.RequestUpdatedHookActions) {
			ha.SendExtensionData(graphsync.ExtensionData{Name: "c25/updateack", Data: basicnode.NewString("ack")})
			ha.UnpauseResponse()
		})
		rs.GS.RegisterCompletedResponseListener(func(p peer.ID, rd graphsync.RequestData, st graphsync.ResponseStatusCode) {
			mu.Lock()
			completed[rd.ID()] = st
			mu.Unlock()
		})
		rs.GS.RegisterRequestorCancelledListener(func(p peer.ID, rd graphsync.RequestData) {
			mu.Lock()
			cancelled[rd.ID()] = true
			mu.Unlock()
		})
		pending := map[string]bool{}
		api := func(name string, f func() error) {
			mu.Lock()
			pending[name] = true
			mu.Unlock()
			go func() {
				_ = f()
				mu.Lock()
				delete(pending, name)
				mu.Unlock()
			}()
		}
		send := func(from peer.ID, q gsmsg.GraphSyncRequest) {
			w.Net.Connect(from, scen.RespID)
			if err := w.Net.Inject(from, scen.RespID, gsmsg.NewMessage(map[graphsync.RequestID]gsmsg.GraphSyncRequest{q.ID(): q}, nil, nil)); err != nil {
				panic(err)
			}
			w.Net.Deliver(from, scen.RespID)
			w.Wait()
		}
		newReq := func(p peer.ID, id graphsync.RequestID, ext bool) {
			var exts []graphsync.ExtensionData
			if ext {
				exts = append(exts, graphsync.ExtensionData{Name: "c25/wantext", Data: basicnode.NewBool(true)})
			}
			send(p, gsmsg.NewRequest(id, b.Root, sel, 0, exts...))
		}
		// phase 1: the stalled peer fills its allowance
		for i := 0; i < c.SReqs; i++ {
			newReq(peerS, rid('S', i), false)
		}
		w.Quiesce()
		st := rs.GS.Stats().OutgoingResponses
		exhausted = st.TotalPendingAllocations > 0
		sCount, hCount := c.SReqs, 0
		// phase 2: traffic while S stays stalled
		for k, op := range c.Ops {
			p, pfx := peerH, byte('H')
			if op.Peer == "S" {
				p, pfx = peerS, 'S'
			}
			cnt := hCount
			if op.Peer == "S" {
				cnt = sCount
			}
			id := rid(pfx, 0)
			if cnt > 0 {
				id = rid(pfx, op.R%cnt)
			}
			name := fmt.Sprintf("%d:%s/%s", k, op.Peer, op.K)
			switch op.K {
			case "new", "newext":
				if op.Peer == "S" {
					newReq(p, rid(pfx, sCount), op.K == "newext")
					sCount++
				} else {
					hNew[hCount] = true
					newReq(p, rid(pfx, hCount), op.K == "newext")
					hCount++
				}
			case "cancelmsg":
				if cnt > 0 {
					if op.Peer == "H" {
						hCancelled[op.R%cnt] = true
					}
					send(p, gsmsg.NewCancelRequest(id))
				}
			case "updatemsg":
				if cnt > 0 {
					send(p, gsmsg.NewUpdateRequest(id, graphsync.ExtensionData{Name: "c25/update", Data: basicnode.NewString("u")}))
				}
			case "apipause":
				api(name, func() error { return rs.GS.Pause(w.Ctx, id) })
			case "apiunpause":
				api(name, func() error { return rs.GS.Unpause(w.Ctx, id) })
			case "apiunpauseext":
				api(name, func() error {
					return rs.GS.Unpause(w.Ctx, id, graphsync.ExtensionData{Name: "c25/resume", Data: basicnode.NewString("resuming")})
				})
			case "apiupdate":
				api(name, func() error {
					return rs.GS.SendUpdate(w.Ctx, id, graphsync.ExtensionData{Name: "c25/apiupdate", Data: basicnode.NewString("hello")})
				})
			case "apicancel":
				if op.Peer == "H" && cnt > 0 {
					hCancelled[op.R%cnt] = true
				}
				api(name, func() error { return rs.GS.Cancel(w.Ctx, id) })
			case "disconnect":
				// the stalled peer's connection breaks: its stalled send fails (further sends to it stall again)
				if op.Peer == "S" {
					w.Net.Disconnect(scen.RespID, peerS)
				}
			case "tick":
				time.Sleep(150 * time.Millisecond)
			}
			w.Wait()
		}
		// phase 3: every paused healthy response is resumed; S stays stalled for an hour
		for round := 0; round < 6; round++ {
			w.Quiesce()
			psc := make(chan graphsync.RequestStates, 1)
			api("peerstate-H", func() error { psc <- rs.Impl.PeerState(peerH).IncomingState.RequestStates; return nil })
			w.Wait()
			var states graphsync.RequestStates
			select {
			case states = <-psc:
			default:
			}
			any := false
			for id, s := range states {
				if s == graphsync.Paused {
					any = true
					id := id
					api("final-unpause", func() error { return rs.GS.Unpause(w.Ctx, id) })
					w.Wait()
				}
			}
			if !any {
				break
			}
		}
		w.Quiesce()
		time.Sleep(time.Hour)
		w.Quiesce()
		mu.Lock()
		for n := range pending {
			apiHung = append(apiHung, n)
		}
		mu.Unlock()
		psc := make(chan string, 1)
		go func() { psc <- fmt.Sprint(rs.Impl.PeerState(peerH).IncomingState.RequestStates) }()
		w.Wait()
		select {
		case finalStates = <-psc:
		default:
			finalStates = "(PeerState for the healthy peer never returned)"
		}
		if os.Getenv("VERIF_TRACE") != "" {
			fmt.Println(w.Net.Transcript())
		}
	})
	if ro.Panic != "" {
		return v.Failf("panic: %s", ro.Panic)
	}
	v.NonTrivial = exhausted
	if exhausted {
		v.Label("stalled-peer-allowance-exhausted")
	}
	if !exhausted {
		return v // premise not established: the stalled peer never filled its allowance
	}
	mu.Lock()
	defer mu.Unlock()
	for i := range hNew {
		id := rid('H', i)
		_, done := completed[id]
		if done || cancelled[id] {
			continue
		}
		return v.Failf("healthy peer's request %d was never answered to the end while another peer is stalled (no terminal status sent, not cancelled; cancel requested by script: %v); responder lists for the healthy peer: %s; calls that never returned: %v", i, hCancelled[i], finalStates, apiHung)
	}
	for _, n := range apiHung {
		return v.Failf("control call %q never returned while a peer is stalled (all hung: %v)", n, apiHung)
	}
	return v
}

var def = pbt.Def[Case]{Name: "stalled-peer-does-not-block-others", Gen: gen, Run: judge}

func TestProp(t *testing.T) {
	outerT = t
	pbt.Check(t, run, def, 1200, 50000)
	pbt.Check(t, run, defR, 800, 50000)
}

func TestReplay(t *testing.T) {
	outerT = t
	pbt.Register(run, def)
	pbt.Register(run, defR)
	run.Replay(t)
}
