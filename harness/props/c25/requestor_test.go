package c25

import (
	"fmt"
	"sync"
	"time"

	blocks "github.com/ipfs/go-block-format"
	"github.com/ipfs/go-cid"
	cidlink "github.com/ipld/go-ipld-prime/linking/cid"
	"github.com/libp2p/go-libp2p/core/peer"
	"pgregory.net/rapid"

	"github.com/ipfs/go-graphsync"
	gsmsg "github.com/ipfs/go-graphsync/message"

	"verif/harness/dagen"
	"verif/harness/pbt"
	"verif/harness/scen"
	"verif/harness/sim"
)

// The requestor's half of the property: a responder the requestor cannot send to (every SendMsg to it
// blocks for ever) must not stop it from processing the responses of another responder.

type ROp struct {
	K string `json:"k"` // reqS reqH answer cancelS cancelH pauseS unpauseS tick
	R int    `json:"r"`
	N int    `json:"n"` // answer: how many entries of the transcript to send
}

type RCase struct {
	Blocks int   `json:"blocks"`
	Ops    []ROp `json:"ops"`
}

func genR(t *rapid.T) RCase {
	c := RCase{Blocks: rapid.IntRange(2, 7).Draw(t, "blocks")}
	n := rapid.IntRange(3, 14).Draw(t, "nops")
	c.Ops = append(c.Ops, ROp{K: "reqS"})
	hasH := false
	for i := 0; i < n; i++ {
		op := ROp{K: rapid.SampledFrom([]string{"reqS", "reqH", "reqH", "answer", "answer", "answer", "cancelS", "cancelH", "pauseS", "unpauseS", "tick"}).Draw(t, "k"), R: rapid.IntRange(0, 3).Draw(t, "r"), N: rapid.IntRange(1, 4).Draw(t, "n")}
		if op.K == "reqH" {
			hasH = true
		}
		c.Ops = append(c.Ops, op)
	}
	if !hasH {
		c.Ops = append(c.Ops, ROp{K: "reqH"})
	}
	return c
}

func judgeR(c RCase) *pbt.Verdict {
	v := &pbt.Verdict{NonTrivial: true}
	b, err := chain(c.Blocks, 40).Build()
	if err != nil {
		v.Skip = true
		return v
	}
	sel := dagen.RecAll(-1).Node()
	full := dagen.RefFull(b, dagen.Canonical(sel))
	peerSt, peerHe := peer.ID("stalled-responder"), peer.ID("healthy-responder")
	var fail string
	var mu sync.Mutex
	ro := sim.Run(outerT, func(w *sim.World) {
		w.Net.SendPolicy = func(from, to peer.ID, n int, m gsmsg.GraphSyncMessage) sim.SendOutcome {
			if to == peerSt {
				return sim.SendBlock
			}
			return sim.SendOK
		}
		rq := w.AddInstance(scen.ReqID, sim.NewStore(nil, true))
		w.AddScripted(peerSt)
		he := w.AddScripted(peerHe)
		var hRes []*sim.ReqResult
		var hCancelled []bool
		var sRes []*sim.ReqResult
		sent := map[graphsync.RequestID]int{} // transcript entries already sent per request of H
		pending := map[string]bool{}
		api := func(name string, f func()) {
			mu.Lock()
			pending[name] = true
			mu.Unlock()
			go func() {
				f()
				mu.Lock()
				delete(pending, name)
				mu.Unlock()
			}()
		}
		// requests H has received, in order
		hReqs := func() []graphsync.RequestID {
			var ids []graphsync.RequestID
			seen := map[graphsync.RequestID]bool{}
			for _, e := range he.Received {
				for _, q := range e.Msg.Requests() {
					if q.Type() == graphsync.RequestTypeNew && !seen[q.ID()] {
						seen[q.ID()] = true
						ids = append(ids, q.ID())
					}
				}
			}
			return ids
		}
		answer := func(id graphsync.RequestID, n int) {
			from := sent[id]
			if from >= len(full.Loads) {
				return
			}
			to := from + n
			if to > len(full.Loads) {
				to = len(full.Loads)
			}
			var md []gsmsg.GraphSyncLinkMetadatum
			blks := map[cid.Cid]blocks.Block{}
			for _, l := range full.Loads[from:to] {
				md = append(md, gsmsg.GraphSyncLinkMetadatum{Link: l.Cid, Action: graphsync.LinkActionPresent})
				blk, _ := blocks.NewBlockWithCid(b.Data[l.Cid], l.Cid)
				blks[l.Cid] = blk
			}
			st := graphsync.PartialResponse
			if to == len(full.Loads) {
				st = graphsync.RequestCompletedFull
			}
			sent[id] = to
			w.Net.Connect(peerHe, scen.ReqID)
			if err := w.Net.Inject(peerHe, scen.ReqID, gsmsg.NewMessage(nil, map[graphsync.RequestID]gsmsg.GraphSyncResponse{id: gsmsg.NewResponse(id, st, md)}, blks)); err == nil {
				w.Net.Deliver(peerHe, scen.ReqID)
			}
		}
		deliverToH := func() {
			for w.Net.Deliver(scen.ReqID, peerHe) != nil {
			}
		}
		for k, op := range c.Ops {
			name := fmt.Sprintf("%d:%s", k, op.K)
			switch op.K {
			case "reqS":
				// the caller keeps its requests to one responder below its own in-progress limit (6 by default):
				// how many requests may run at once is C21's subject, not this one's
				if len(sRes) < 3 {
					sRes = append(sRes, w.Request(rq, peerSt, cidlink.Link{Cid: b.Root}, sel))
				}
			case "reqH":
				hRes = append(hRes, w.Request(rq, peerHe, cidlink.Link{Cid: b.Root}, sel))
				hCancelled = append(hCancelled, false)
			case "answer":
				w.Wait()
				deliverToH()
				w.Wait()
				if ids := hReqs(); len(ids) > 0 {
					answer(ids[op.R%len(ids)], op.N)
				}
			case "cancelS":
				if len(sRes) > 0 {
					sRes[op.R%len(sRes)].Cancel()
				}
			case "cancelH":
				if len(hRes) > 0 {
					hRes[op.R%len(hRes)].Cancel()
					hCancelled[op.R%len(hRes)] = true
				}
			case "pauseS", "unpauseS":
				states := rq.Impl.PeerState(peerSt).OutgoingState.RequestStates
				for id := range states {
					id := id
					if op.K == "pauseS" {
						api(name, func() { _ = rq.GS.Pause(w.Ctx, id) })
					} else {
						api(name, func() { _ = rq.GS.Unpause(w.Ctx, id) })
					}
					break
				}
			case "tick":
				time.Sleep(150 * time.Millisecond)
			}
			w.Wait()
		}
		// the healthy responder answers everything it was asked, to the end; the stalled one stays stalled
		for round := 0; round < 4; round++ {
			w.Wait()
			deliverToH()
			w.Wait()
			for _, id := range hReqs() {
				answer(id, len(full.Loads))
				w.Wait()
			}
		}
		time.Sleep(time.Hour)
		w.Wait()
		for i, r := range hRes {
			vs, es, rc, ec := r.Snapshot()
			if hCancelled[i] {
				continue
			}
			if !rc || !ec {
				fail = fmt.Sprintf("request %d to the healthy responder never ended while another responder cannot be sent to (%d nodes, errors %v)", i, len(vs), es)
				return
			}
			if len(vs) != len(full.Visits) {
				fail = fmt.Sprintf("request %d to the healthy responder delivered %d of %d nodes (errors %v)", i, len(vs), len(full.Visits), es)
				return
			}
		}
		mu.Lock()
		for n := range pending {
			fail = fmt.Sprintf("control call %q never returned while a responder is stalled", n)
		}
		mu.Unlock()
	})
	if ro.Panic != "" {
		return v.Failf("panic: %s", ro.Panic)
	}
	if fail != "" {
		return v.Failf("%s", fail)
	}
	return v
}

var defR = pbt.Def[RCase]{Name: "stalled-responder-does-not-block-requestor", Gen: genR, Run: judgeR}
