package c13

import (
	"fmt"
	"testing"

	"pgregory.net/rapid"

	"verif/harness/comp/allocrig"
	"verif/harness/pbt"
)

var run = pbt.Init(PROP)

func TestMain(m *testing.M) { pbt.Main(m, run) }

func which(r allocrig.Result) string {
	if PROP == "C13" {
		return r.C13
	}
	return r.C14
}

func GenHistory(t *rapid.T) allocrig.History {
	var h allocrig.History
	big := rapid.IntRange(0, 9).Draw(t, "bigclass") == 0
	if big {
		h.Total = rapid.Uint64Range(1, 1<<41).Draw(t, "total")
		h.PerPeer = rapid.Uint64Range(1, 1<<41).Draw(t, "perpeer")
	} else {
		h.Total = rapid.Uint64Range(1, 12).Draw(t, "total")
		h.PerPeer = rapid.Uint64Range(1, 12).Draw(t, "perpeer")
	}
	npeers := rapid.SampledFrom([]int{1, 2, 2, 3, 3}).Draw(t, "npeers")
	amounts := []uint64{1, 2, 3, 1, 2, 3, 1, 2, h.PerPeer, h.PerPeer / 2, h.Total / 2, h.Total, 0, h.PerPeer + 1, h.Total + 1}
	n := rapid.IntRange(1, 60).Draw(t, "nops")
	for i := 0; i < n; i++ {
		var op allocrig.Op
		op.P = rapid.IntRange(0, npeers-1).Draw(t, "peer")
		switch k := rapid.IntRange(0, 9).Draw(t, "kind"); {
		case k < 5:
			op.K = allocrig.Alloc
		case k < 9:
			op.K = allocrig.Release
		default:
			op.K = allocrig.ReleasePeer
		}
		if op.K != allocrig.ReleasePeer {
			if big && rapid.Bool().Draw(t, "bigamt") {
				op.A = rapid.Uint64Range(0, 1<<40).Draw(t, "amt")
			} else {
				op.A = rapid.SampledFrom(amounts).Draw(t, "amt")
			}
		}
		h.Ops = append(h.Ops, op)
	}
	return h
}

func judge(h allocrig.History) *pbt.Verdict {
	r := allocrig.Run(h, true)
	v := &pbt.Verdict{Fail: which(r), NonTrivial: r.NonTrivial()}
	if r.WokeByRelease > 0 {
		v.Label("woken-by-release")
	}
	if r.Failed > 0 {
		v.Label("waiter-failed-by-releasePeer")
	}
	if r.Clamped > 0 {
		v.Label("release-clamped")
	}
	if r.PeersUsed >= 2 {
		v.Label("multi-peer")
	}
	if h.Total > 12 || h.PerPeer > 12 {
		v.Label("large-limits")
	}
	return v
}

var def = pbt.Def[allocrig.History]{Name: "history", Gen: GenHistory, Run: judge}

func TestProp(t *testing.T) {
	// bounded-exhaustive part
	n := run.N(5, 7)
	for _, lim := range allocrig.LimitPairs {
		total, nt := 0, 0
		var sample any
		var bad *allocrig.History
		var msg string
		allocrig.Enumerate(n, lim, run.Shard, run.NShards, func(h allocrig.History, r allocrig.Result) bool {
			total++
			if r.NonTrivial() {
				nt++
				if sample == nil {
					cp := h
					cp.Ops = append([]allocrig.Op(nil), h.Ops...)
					sample = cp
				}
			}
			if f := which(r); f != "" {
				cp := h
				cp.Ops = append([]allocrig.Op(nil), h.Ops...)
				bad, msg = &cp, f
				return false
			}
			return true
		})
		run.AddExhaustive(fmt.Sprintf("exhaustive-len%d-limits%dx%d", n, lim[0], lim[1]), total, nt, sample)
		if bad != nil {
			pbt.Register(run, def)
			p := run.WriteReplayCase("history", bad, msg)
			t.Fatalf("exhaustive: %s (replay %s)", msg, p)
		}
	}
	pbt.Check(t, run, def, 20000, 400000)
}

func TestReplay(t *testing.T) {
	pbt.Register(run, def)
	pbt.Register(run, defRace)
	run.Replay(t)
}
