package c13

const PROP = "C13"
