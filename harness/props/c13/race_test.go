package c13

import (
	"fmt"
	"sync"
	"testing"

	"github.com/libp2p/go-libp2p/core/peer"
	"pgregory.net/rapid"

	"github.com/ipfs/go-graphsync/allocator"

	"verif/harness/pbt"
)

// Callers on several goroutines (one message queue per peer shares the allocator in production): whatever
// the interleaving, the calls take effect in SOME order, so once all callers are done the conservation
// clauses must hold: the reported total is the sum of what the peers are reported to hold, it is within the
// configured total, and after every peer has been released nothing is reported allocated or pending.
// Limits are large, so every allocation is granted at once and no caller can block.

type RaceOp struct {
	K string `json:"k"` // alloc release releasepeer
	P int    `json:"p"`
	A uint64 `json:"a"`
}

type RaceCase struct {
	Peers  int        `json:"peers"`
	Gs     [][]RaceOp `json:"goroutines"`
	Rounds int        `json:"rounds"`
}

func genRace(t *rapid.T) RaceCase {
	c := RaceCase{Peers: rapid.IntRange(1, 3).Draw(t, "peers"), Rounds: rapid.IntRange(5, 30).Draw(t, "rounds")}
	g := rapid.IntRange(2, 6).Draw(t, "goroutines")
	for i := 0; i < g; i++ {
		var ops []RaceOp
		n := rapid.IntRange(2, 12).Draw(t, "nops")
		for j := 0; j < n; j++ {
			op := RaceOp{P: rapid.IntRange(0, c.Peers-1).Draw(t, "p"), A: uint64(rapid.IntRange(1, 9).Draw(t, "a"))}
			switch k := rapid.IntRange(0, 9).Draw(t, "k"); {
			case k < 4:
				op.K = "alloc"
			case k < 8:
				op.K = "release"
			default:
				op.K = "releasepeer"
			}
			ops = append(ops, op)
		}
		c.Gs = append(c.Gs, ops)
	}
	return c
}

func judgeRace(c RaceCase) *pbt.Verdict {
	v := &pbt.Verdict{}
	peers := []peer.ID{"race-peer-0", "race-peer-1", "race-peer-2"}[:c.Peers]
	const total = 1 << 30
	hasPeerRelease := false
	for _, g := range c.Gs {
		for _, op := range g {
			if op.K == "releasepeer" {
				hasPeerRelease = true
			}
		}
	}
	v.NonTrivial = hasPeerRelease && len(c.Gs) >= 2
	if hasPeerRelease {
		v.Label("release-peer-races-block-releases")
	}
	for round := 0; round < c.Rounds; round++ {
		a := allocator.NewAllocator(total, total)
		start := make(chan struct{})
		var wg sync.WaitGroup
		for _, ops := range c.Gs {
			wg.Add(1)
			go func(ops []RaceOp) {
				defer wg.Done()
				<-start
				for _, op := range ops {
					p := peers[op.P%len(peers)]
					switch op.K {
					case "alloc":
						<-a.AllocateBlockMemory(p, op.A)
					case "release":
						_ = a.ReleaseBlockMemory(p, op.A)
					case "releasepeer":
						_ = a.ReleasePeerMemory(p)
					}
				}
			}(ops)
		}
		close(start)
		wg.Wait()
		var sum uint64
		for _, p := range peers {
			sum += a.AllocatedForPeer(p)
		}
		st := a.Stats()
		if st.TotalAllocatedAllPeers != sum {
			return v.Failf("round %d: after all callers finished the allocator reports %d bytes allocated in total but its peers hold %d together", round, st.TotalAllocatedAllPeers, sum)
		}
		if st.TotalAllocatedAllPeers > total {
			return v.Failf("round %d: %d bytes reported allocated, configured total %d", round, st.TotalAllocatedAllPeers, uint64(total))
		}
		for _, p := range peers {
			_ = a.ReleasePeerMemory(p)
		}
		st = a.Stats()
		if st.TotalAllocatedAllPeers != 0 || st.TotalPendingAllocations != 0 || st.NumPeersWithPendingAllocations != 0 {
			return v.Failf("round %d: every peer was released, yet %d bytes are reported allocated (%d pending allocations, %d peers pending)", round, st.TotalAllocatedAllPeers, st.TotalPendingAllocations, st.NumPeersWithPendingAllocations)
		}
	}
	v.Note = fmt.Sprintf("goroutines=%d rounds=%d", len(c.Gs), c.Rounds)
	return v
}

var defRace = pbt.Def[RaceCase]{Name: "concurrent-callers", Gen: genRace, Run: judgeRace}

func TestPropRace(t *testing.T) {
	pbt.Check(t, run, defRace, 3000, 150000)
}
