package c24

import (
	"fmt"
	"github.com/ipld/go-ipld-prime/node/basicnode"
	"github.com/libp2p/go-libp2p/core/peer"
	"testing"
	"verif/harness/sim"

	"github.com/ipfs/go-cid"
	"pgregory.net/rapid"

	"github.com/ipfs/go-graphsync"
	"github.com/ipfs/go-graphsync/cidset"
	"github.com/ipfs/go-graphsync/donotsendfirstblocks"

	"verif/harness/dagen"
	"verif/harness/pbt"
	"verif/harness/scen"
)

var run = pbt.Init("C24")
var outerT *testing.T

func TestMain(m *testing.M) { pbt.Main(m, run) }

type Case struct {
	Base      scen.Base `json:"base"`
	UserSkip  int       `json:"user_skip"`   // 0 = no user do-not-send-first-blocks
	UserCids  []int     `json:"user_cids"`   // indices into the DAG's distinct blocks; empty = no do-not-send-cids
	UserKey   bool      `json:"user_key"`    // the request also carries dedup-by-key (its own de-duplication scope on the responder)
	HasCidExt bool      `json:"has_cid_ext"` // send the extension even when empty
	// PauseAt > 0: the requestor's block hook pauses the request at its n-th block; it is resumed once everything
	// is quiet, which makes the requestor send the request again under the same id with a new skip count
	PauseAt int `json:"pause_at,omitempty"`
}

func gen(t *rapid.T) Case {
	c := Case{Base: scen.GenBase(t, run.N(12, 30))}
	if rapid.IntRange(0, 3).Draw(t, "userext") == 0 {
		c.UserSkip = rapid.IntRange(0, 6).Draw(t, "userskip")
		c.UserKey = rapid.IntRange(0, 2).Draw(t, "userkey") == 0
		if rapid.Bool().Draw(t, "cidext") {
			c.HasCidExt = true
			c.UserCids = rapid.SliceOfNDistinct(rapid.IntRange(0, len(c.Base.DAG.Blocks)-1), 0, 4, rapid.ID[int]).Draw(t, "usercids")
		}
	}
	if rapid.IntRange(0, 3).Draw(t, "haspause") == 0 {
		c.PauseAt = rapid.IntRange(1, 6).Draw(t, "pauseat")
	}
	return c
}

func judge(c Case) *pbt.Verdict {
	v := &pbt.Verdict{}
	p, ok := c.Base.Prepare()
	if !ok {
		v.Skip = true
		return v
	}
	var exts []graphsync.ExtensionData
	userSet := cid.NewSet()
	if c.UserSkip > 0 {
		exts = append(exts, graphsync.ExtensionData{Name: graphsync.ExtensionsDoNotSendFirstBlocks, Data: donotsendfirstblocks.EncodeDoNotSendFirstBlocks(int64(c.UserSkip))})
	}
	if c.HasCidExt {
		for _, i := range c.UserCids {
			if i < len(p.B.Order) {
				userSet.Add(p.B.Order[i])
			}
		}
		exts = append(exts, graphsync.ExtensionData{Name: graphsync.ExtensionDoNotSendCIDs, Data: cidset.EncodeCidSet(userSet)})
	}
	if c.UserKey {
		exts = append(exts, graphsync.ExtensionData{Name: graphsync.ExtensionDeDupByKey, Data: basicnode.NewString("own-scope")})
	}
	if c.PauseAt > 0 && p.Ref.PathLoadedTwice() && run.Known("C02-path-loaded-twice-then-resume") {
		v.Excluded = "C02-path-loaded-twice-then-resume"
		return v
	}
	opts := scen.ExOpts{Exts: exts}
	resumed := false
	if c.PauseAt > 0 {
		nblk := 0
		var paused []graphsync.RequestID
		opts.Setup = func(w *sim.World, rq, rs *sim.Inst) {
			rq.GS.RegisterIncomingBlockHook(func(_ peer.ID, rd graphsync.ResponseData, _ graphsync.BlockData, ha graphsync.IncomingBlockHookActions) {
				nblk++
				if nblk == c.PauseAt {
					ha.PauseRequest()
					paused = append(paused, rd.RequestID())
				}
			})
		}
		opts.Drive = func(w *sim.World, rq, rs *sim.Inst, res *sim.ReqResult) {
			w.Quiesce()
			for _, id := range paused {
				resumed = true
				_ = rq.GS.Unpause(w.Ctx, id)
				w.Quiesce()
			}
		}
	}
	o := scen.Exchange(outerT, p, opts)
	if resumed {
		v.Label("paused-and-resumed")
	}
	labels, partial := p.Shape()
	v.Labels = labels
	K := p.Ref.LocalPrefix
	wantSkip := K
	if c.UserSkip > wantSkip {
		wantSkip = c.UserSkip
	}
	userExt := c.UserSkip > 0 || c.HasCidExt
	if userExt {
		v.Label("user-extension")
	}
	if K >= 1 && p.NeedsRemote() {
		v.Label("skip-count>=1")
	}
	v.NonTrivial = (K >= 1 && partial) || !p.NeedsRemote() || userExt
	v.Note = p.Note() + fmt.Sprintf(" userSkip=%d userCids=%d", c.UserSkip, userSet.Len())
	if o.Panic != "" {
		return v.Failf("panic: %s", o.Panic)
	}

	// (a) everything local => nothing is sent at all
	if !p.NeedsRemote() {
		if resumed {
			// outside the property's quantifier (it ranges over inputs, not over pauses): pausing makes the
			// executor send a cancel even for a request it never sent; what must still hold is that the
			// request itself never goes to the network
			for _, e := range o.Sent {
				for _, r := range e.Msg.Requests() {
					if r.Type() != graphsync.RequestTypeCancel {
						return v.Failf("requestor holds every block the traversal needs, yet a %v request was sent after pause and resume", r.Type())
					}
				}
				if e.From != scen.ReqID {
					return v.Failf("requestor holds every block the traversal needs, yet the responder sent a message")
				}
			}
		} else if len(o.Sent) != 0 {
			return v.Failf("requestor holds every block the traversal needs but %d message(s) were sent; first: %s", len(o.Sent), describe(o.Sent[0].From.String(), o))
		}
		if !o.RespClosed || !o.ErrClosed {
			return v.Failf("fully local request did not complete")
		}
		return v
	}
	// (b) one New request per run (one run, or two when the request was paused and resumed), the first carrying
	// the right skip count, a later one never a smaller one
	type runT struct {
		skip   int64
		sentAt int // position in o.Sent
	}
	var runs []runT
	reqID := graphsync.RequestID{}
	for k, e := range o.Sent {
		if e.From != scen.ReqID {
			continue
		}
		for _, r := range e.Msg.Requests() {
			if r.Type() == graphsync.RequestTypeNew {
				reqID = r.ID()
				var gotSkip int64
				if d, has := r.Extension(graphsync.ExtensionsDoNotSendFirstBlocks); has {
					n, err := donotsendfirstblocks.DecodeDoNotSendFirstBlocks(d)
					if err != nil {
						return v.Failf("undecodable skip count on the wire: %v", err)
					}
					gotSkip = n
				}
				runs = append(runs, runT{gotSkip, k})
			}
		}
	}
	maxRuns := 1
	if resumed {
		maxRuns = 2
	}
	if len(runs) < 1 || len(runs) > maxRuns {
		return v.Failf("%d New requests sent for one execution (paused and resumed: %v), want 1..%d", len(runs), resumed, maxRuns)
	}
	if runs[0].skip != int64(wantSkip) {
		return v.Failf("New request asks to skip %d blocks; requestor loaded %d locally before its first miss (user-supplied %d) => want %d", runs[0].skip, K, c.UserSkip, wantSkip)
	}
	if len(runs) == 2 {
		v.Label("request-sent-again-after-resume")
		if runs[1].skip < runs[0].skip || runs[1].skip < int64(c.PauseAt) || runs[1].skip > int64(max(len(p.Ref.Loads), c.UserSkip)) {
			return v.Failf("the request sent again after the resume asks to skip %d blocks; the first run asked for %d, the requestor had loaded at least %d blocks when it paused and the whole traversal has %d", runs[1].skip, runs[0].skip, c.PauseAt, len(p.Ref.Loads))
		}
	}
	// (c) the responder never transmits a skipped / excluded / already transmitted block, in any run
	for ri, rn := range runs {
		end := len(o.Sent)
		if ri+1 < len(runs) {
			end = runs[ri+1].sentAt
		}
		gotSkip := rn.skip
		idx := 0 // responder traversal index (counts every link traversal)
		sentOnce := map[cid.Cid]bool{}
		for _, e := range o.Sent[rn.sentAt:end] {
			if e.From != scen.RespID {
				continue
			}
			blocks := map[cid.Cid]bool{}
			for _, b := range e.Msg.Blocks() {
				blocks[b.Cid()] = true
			}
			attributed := map[cid.Cid]bool{}
			for _, r := range e.Msg.Responses() {
				if r.RequestID() != reqID {
					continue
				}
				var fail string
				r.Metadata().Iterate(func(cc cid.Cid, a graphsync.LinkAction) {
					idx++
					if !blocks[cc] || attributed[cc] || a != graphsync.LinkActionPresent {
						return
					}
					attributed[cc] = true
					switch {
					case idx <= int(gotSkip):
						fail = fmt.Sprintf("run %d: block %s at traversal index %d transmitted although the first %d were to be skipped", ri, cc, idx, gotSkip)
					case userSet.Has(cc):
						fail = fmt.Sprintf("run %d: block %s transmitted although listed in do-not-send-cids", ri, cc)
					case sentOnce[cc]:
						fail = fmt.Sprintf("run %d: block %s transmitted twice within one run of the request", ri, cc)
					}
					sentOnce[cc] = true
				})
				if fail != "" {
					return v.Failf("%s", fail)
				}
			}
			for cc := range blocks {
				if !attributed[cc] {
					return v.Failf("block %s transmitted without a Present metadata entry in its message", cc)
				}
			}
		}
	}
	return v
}

func describe(from string, o scen.Outcome) string {
	return fmt.Sprintf("%d requests / %d responses from %s", len(o.Sent[0].Msg.Requests()), len(o.Sent[0].Msg.Responses()), from)
}

var _ = dagen.PrintNode

var def = pbt.Def[Case]{Name: "traffic", Gen: gen, Run: judge}

func TestProp(t *testing.T) {
	outerT = t
	pbt.Check(t, run, def, 15000, 1000000)
}

func TestReplay(t *testing.T) {
	outerT = t
	pbt.Register(run, def)
	run.Replay(t)
}
