package c24

import (
	"fmt"
	"github.com/ipld/go-ipld-prime/node/basicnode"
	"testing"

	"github.com/ipfs/go-cid"
	"pgregory.net/rapid"

	"github.com/ipfs/go-graphsync"
	"github.com/ipfs/go-graphsync/cidset"
	"github.com/ipfs/go-graphsync/donotsendfirstblocks"

	"verif/harness/dagen"
	"verif/harness/pbt"
	"verif/harness/scen"
)

var run = pbt.Init("C24")
var outerT *testing.T

func TestMain(m *testing.M) { pbt.Main(m, run) }

type Case struct {
	Base      scen.Base `json:"base"`
	UserSkip  int       `json:"user_skip"`   // 0 = no user do-not-send-first-blocks
	UserCids  []int     `json:"user_cids"`   // indices into the DAG's distinct blocks; empty = no do-not-send-cids
	UserKey   bool      `json:"user_key"`    // the request also carries dedup-by-key (its own de-duplication scope on the responder)
	HasCidExt bool      `json:"has_cid_ext"` // send the extension even when empty
}

func gen(t *rapid.T) Case {
	c := Case{Base: scen.GenBase(t, run.N(12, 30))}
	if rapid.IntRange(0, 3).Draw(t, "userext") == 0 {
		c.UserSkip = rapid.IntRange(0, 6).Draw(t, "userskip")
		c.UserKey = rapid.IntRange(0, 2).Draw(t, "userkey") == 0
		if rapid.Bool().Draw(t, "cidext") {
			c.HasCidExt = true
			c.UserCids = rapid.SliceOfNDistinct(rapid.IntRange(0, len(c.Base.DAG.Blocks)-1), 0, 4, rapid.ID[int]).Draw(t, "usercids")
		}
	}
	return c
}

func judge(c Case) *pbt.Verdict {
	v := &pbt.Verdict{}
	p, ok := c.Base.Prepare()
	if !ok {
		v.Skip = true
		return v
	}
	var exts []graphsync.ExtensionData
	userSet := cid.NewSet()
	if c.UserSkip > 0 {
		exts = append(exts, graphsync.ExtensionData{Name: graphsync.ExtensionsDoNotSendFirstBlocks, Data: donotsendfirstblocks.EncodeDoNotSendFirstBlocks(int64(c.UserSkip))})
	}
	if c.HasCidExt {
		for _, i := range c.UserCids {
			if i < len(p.B.Order) {
				userSet.Add(p.B.Order[i])
			}
		}
		exts = append(exts, graphsync.ExtensionData{Name: graphsync.ExtensionDoNotSendCIDs, Data: cidset.EncodeCidSet(userSet)})
	}
	if c.UserKey {
		exts = append(exts, graphsync.ExtensionData{Name: graphsync.ExtensionDeDupByKey, Data: basicnode.NewString("own-scope")})
	}
	o := scen.Exchange(outerT, p, scen.ExOpts{Exts: exts})
	labels, partial := p.Shape()
	v.Labels = labels
	K := p.Ref.LocalPrefix
	wantSkip := K
	if c.UserSkip > wantSkip {
		wantSkip = c.UserSkip
	}
	userExt := c.UserSkip > 0 || c.HasCidExt
	if userExt {
		v.Label("user-extension")
	}
	if K >= 1 && p.NeedsRemote() {
		v.Label("skip-count>=1")
	}
	v.NonTrivial = (K >= 1 && partial) || !p.NeedsRemote() || userExt
	v.Note = p.Note() + fmt.Sprintf(" userSkip=%d userCids=%d", c.UserSkip, userSet.Len())
	if o.Panic != "" {
		return v.Failf("panic: %s", o.Panic)
	}

	// (a) everything local => nothing is sent at all
	if !p.NeedsRemote() {
		if len(o.Sent) != 0 {
			return v.Failf("requestor holds every block the traversal needs but %d message(s) were sent; first: %s", len(o.Sent), describe(o.Sent[0].From.String(), o))
		}
		if !o.RespClosed || !o.ErrClosed {
			return v.Failf("fully local request did not complete")
		}
		return v
	}
	// (b) exactly one New request, carrying the right skip count
	var news int
	var gotSkip int64 = -1
	reqID := graphsync.RequestID{}
	for _, e := range o.Sent {
		if e.From != scen.ReqID {
			continue
		}
		for _, r := range e.Msg.Requests() {
			if r.Type() == graphsync.RequestTypeNew {
				news++
				reqID = r.ID()
				gotSkip = 0
				if d, has := r.Extension(graphsync.ExtensionsDoNotSendFirstBlocks); has {
					n, err := donotsendfirstblocks.DecodeDoNotSendFirstBlocks(d)
					if err != nil {
						return v.Failf("undecodable skip count on the wire: %v", err)
					}
					gotSkip = n
				}
			}
		}
	}
	if news != 1 {
		return v.Failf("%d New requests sent for one execution, want exactly 1", news)
	}
	if gotSkip != int64(wantSkip) {
		return v.Failf("New request asks to skip %d blocks; requestor loaded %d locally before its first miss (user-supplied %d) => want %d", gotSkip, K, c.UserSkip, wantSkip)
	}
	// (c) responder never transmits a skipped / excluded / already transmitted block
	idx := 0 // responder traversal index (counts every link traversal)
	sentOnce := map[cid.Cid]bool{}
	for _, e := range o.Sent {
		if e.From != scen.RespID {
			continue
		}
		blocks := map[cid.Cid]bool{}
		for _, b := range e.Msg.Blocks() {
			blocks[b.Cid()] = true
		}
		attributed := map[cid.Cid]bool{}
		for _, r := range e.Msg.Responses() {
			if r.RequestID() != reqID {
				continue
			}
			var fail string
			r.Metadata().Iterate(func(cc cid.Cid, a graphsync.LinkAction) {
				idx++
				if !blocks[cc] || attributed[cc] || a != graphsync.LinkActionPresent {
					return
				}
				attributed[cc] = true
				switch {
				case idx <= int(gotSkip):
					fail = fmt.Sprintf("block %s at traversal index %d transmitted although the first %d were to be skipped", cc, idx, gotSkip)
				case userSet.Has(cc):
					fail = fmt.Sprintf("block %s transmitted although listed in do-not-send-cids", cc)
				case sentOnce[cc]:
					fail = fmt.Sprintf("block %s transmitted twice within one request", cc)
				}
				sentOnce[cc] = true
			})
			if fail != "" {
				return v.Failf("%s", fail)
			}
		}
		for cc := range blocks {
			if !attributed[cc] {
				return v.Failf("block %s transmitted without a Present metadata entry in its message", cc)
			}
		}
	}
	return v
}

func describe(from string, o scen.Outcome) string {
	return fmt.Sprintf("%d requests / %d responses from %s", len(o.Sent[0].Msg.Requests()), len(o.Sent[0].Msg.Responses()), from)
}

var _ = dagen.PrintNode

var def = pbt.Def[Case]{Name: "traffic", Gen: gen, Run: judge}

func TestProp(t *testing.T) {
	outerT = t
	pbt.Check(t, run, def, 15000, 1000000)
}

func TestReplay(t *testing.T) {
	outerT = t
	pbt.Register(run, def)
	run.Replay(t)
}
