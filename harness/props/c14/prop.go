package c14

const PROP = "C14"
