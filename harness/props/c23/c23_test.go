package c23

import (
	"fmt"
	"testing"

	"pgregory.net/rapid"

	"github.com/ipfs/go-graphsync"

	"verif/harness/dagen"
	"verif/harness/pbt"
	"verif/harness/scen/duo"
	"verif/harness/scen/resplife"
)

var run = pbt.Init("C23")
var outerT *testing.T

func TestMain(m *testing.M) { pbt.Main(m, run) }

var opKinds = []string{"deliver", "deliver", "deliver", "deliver", "deliver", "start", "start", "qpause", "qunpause", "qcancel", "spause", "sunpause", "scancel", "sgate", "qgate", "tick"}

func genDuo(t *rapid.T) duo.Case {
	d := dagen.GenDAG(t, dagen.GenOpts{MaxBlocks: run.N(9, 18), MaxDepth: 2})
	c := duo.Case{DAG: d, Sel: dagen.RecAll(int64(rapid.SampledFrom([]int{-1, 4, 10}).Draw(t, "lim"))), Split: dagen.GenSplit(t, len(d.Blocks))}
	n := rapid.IntRange(1, 4).Draw(t, "nreqs")
	for i := 0; i < n; i++ {
		r := duo.ReqSpec{Prio: rapid.IntRange(0, 2).Draw(t, "prio")}
		if rapid.IntRange(0, 2).Draw(t, "subroot") == 0 {
			r.Root = rapid.IntRange(1, 4).Draw(t, "root")
		}
		switch rapid.IntRange(0, 4).Draw(t, "stall") {
		case 0:
			r.ReqPauseAt = rapid.IntRange(1, 4).Draw(t, "qp")
		case 1:
			r.RespPauseAt = rapid.IntRange(1, 4).Draw(t, "sp")
		case 2:
			r.RespGateAt = rapid.IntRange(1, 4).Draw(t, "sg")
		case 3:
			r.ReqGateAt = rapid.IntRange(1, 4).Draw(t, "qg")
		}
		c.Reqs = append(c.Reqs, r)
	}
	if rapid.Bool().Draw(t, "startfirst") {
		for i := 0; i < n; i++ {
			c.Ops = append(c.Ops, duo.Op{K: "start", R: i})
		}
	}
	resumedThenQueued := n >= 2 && rapid.IntRange(0, 5).Draw(t, "resumed-queued") == 0
	if resumedThenQueued {
		// request 0 runs, pauses itself, and is resumed while the only worker is busy with request 1 (held at
		// the responder): it waits in the queue as a request that has run before; then something ends it
		c.Reqs[0].ReqPauseAt, c.Reqs[0].RespPauseAt, c.Reqs[0].RespGateAt, c.Reqs[0].ReqGateAt = rapid.IntRange(1, 2).Draw(t, "qp0"), 0, 0, 0
		c.Reqs[1].RespGateAt, c.Reqs[1].ReqPauseAt, c.Reqs[1].RespPauseAt, c.Reqs[1].ReqGateAt = 1, 0, 0, 0
		c.Ops = []duo.Op{{K: "start", R: 0}}
		for k := rapid.IntRange(3, 8).Draw(t, "warm"); k > 0; k-- {
			c.Ops = append(c.Ops, duo.Op{K: "deliver", N: rapid.IntRange(0, 1).Draw(t, "l")})
		}
		c.Ops = append(c.Ops, duo.Op{K: "start", R: 1})
		for k := rapid.IntRange(1, 4).Draw(t, "warm2"); k > 0; k-- {
			c.Ops = append(c.Ops, duo.Op{K: "deliver", N: rapid.IntRange(0, 1).Draw(t, "l")})
		}
		c.Ops = append(c.Ops, duo.Op{K: "qunpause", R: 0}, duo.Op{K: rapid.SampledFrom([]string{"qcancel", "qcancel", "scancel", "tick"}).Draw(t, "end"), R: 0}, duo.Op{K: "tick"})
	}
	if !resumedThenQueued && rapid.IntRange(0, 5).Draw(t, "resent-while-running") == 0 {
		// the requestor pauses and resumes request 0 (cancel, then the same id again) while the responder's
		// task for it is held in a storage read: the re-sent request has to wait for that task to end
		c.Reqs[0].RespGateAt, c.Reqs[0].ReqPauseAt, c.Reqs[0].RespPauseAt, c.Reqs[0].ReqGateAt = rapid.IntRange(1, 3).Draw(t, "sg0"), 0, 0, 0
		c.Ops = []duo.Op{{K: "start", R: 0}}
		for k := rapid.IntRange(1, 5).Draw(t, "warm"); k > 0; k-- {
			c.Ops = append(c.Ops, duo.Op{K: "deliver", N: rapid.IntRange(0, 1).Draw(t, "l")})
		}
		c.Ops = append(c.Ops, duo.Op{K: "qpause", R: 0})
		for k := rapid.IntRange(1, 3).Draw(t, "d1"); k > 0; k-- {
			c.Ops = append(c.Ops, duo.Op{K: "deliver", N: rapid.IntRange(0, 1).Draw(t, "l")})
		}
		c.Ops = append(c.Ops, duo.Op{K: "qunpause", R: 0})
		for k := rapid.IntRange(1, 3).Draw(t, "d2"); k > 0; k-- {
			c.Ops = append(c.Ops, duo.Op{K: "deliver", N: rapid.IntRange(0, 1).Draw(t, "l")})
		}
		c.Ops = append(c.Ops, duo.Op{K: "sgate", R: 0}, duo.Op{K: "tick"})
	}
	cancelRace := n >= 4 && !resumedThenQueued && len(c.Ops) <= n && rapid.IntRange(0, 4).Draw(t, "cancel-race") == 0
	if cancelRace {
		// one worker, held by request 0 inside its block hook at the block at which it then pauses itself;
		// request 1 waits in the queue; its cancel races the freed worker picking its task up while the loop
		// is busy with request 2's slow outgoing-request hook
		k := rapid.IntRange(1, 2).Draw(t, "g0")
		c.Reqs[0].ReqGateAt, c.Reqs[0].ReqPauseAt, c.Reqs[0].RespPauseAt, c.Reqs[0].RespGateAt = k, k, 0, 0
		c.Reqs[2].OutHookYield, c.Reqs[3].OutHookYield = true, true
		c.Ops = []duo.Op{{K: "start", R: 0}}
		for j := rapid.IntRange(2, 6).Draw(t, "warm"); j > 0; j-- {
			c.Ops = append(c.Ops, duo.Op{K: "deliver", N: rapid.IntRange(0, 1).Draw(t, "l")})
		}
		c.Ops = append(c.Ops, duo.Op{K: "start", R: 1}, duo.Op{K: "qrace", R: 1, N: 0}, duo.Op{K: "tick"})
	}
	c.Ops = append(c.Ops, duo.GenOps(t, n, 30, opKinds)...)
	c.MaxOut = rapid.SampledFrom([]int{0, 1, 1, 2}).Draw(t, "maxout")
	if cancelRace {
		c.MaxOut = 1
	}
	if resumedThenQueued {
		c.MaxOut = 1
	}
	c.MaxIn = rapid.SampledFrom([]int{0, 1, 1, 2}).Draw(t, "maxin")
	c.PerPeer = rapid.SampledFrom([]int{0, 0, 0, 1}).Draw(t, "perpeer")
	return c
}

func zeroStats(side string, s graphsync.Stats) string {
	if s.OutgoingRequests.Active != 0 || s.OutgoingRequests.Pending != 0 {
		return fmt.Sprintf("%s: statistics report %d active / %d pending outgoing requests after every request ended", side, s.OutgoingRequests.Active, s.OutgoingRequests.Pending)
	}
	if s.IncomingRequests.Active != 0 || s.IncomingRequests.Pending != 0 {
		return fmt.Sprintf("%s: statistics report %d active / %d pending incoming requests after every request ended", side, s.IncomingRequests.Active, s.IncomingRequests.Pending)
	}
	if s.OutgoingResponses.TotalAllocatedAllPeers != 0 || s.OutgoingResponses.TotalPendingAllocations != 0 {
		return fmt.Sprintf("%s: %d bytes allocated, %d pending for outgoing responses after every request ended", side, s.OutgoingResponses.TotalAllocatedAllPeers, s.OutgoingResponses.TotalPendingAllocations)
	}
	if s.IncomingResponses.TotalAllocatedAllPeers != 0 || s.IncomingResponses.TotalPendingAllocations != 0 {
		return fmt.Sprintf("%s: %d bytes allocated, %d pending for incoming responses after every request ended", side, s.IncomingResponses.TotalAllocatedAllPeers, s.IncomingResponses.TotalPendingAllocations)
	}
	return ""
}

func judgeDuo(c duo.Case) *pbt.Verdict {
	v := &pbt.Verdict{}
	r := duo.Run(outerT, c)
	if r.Skip {
		v.Skip = true
		return v
	}
	if r.Panic != "" {
		return v.Failf("panic: %s", r.Panic)
	}
	// known finding of C06: a re-sent request that arrives while the earlier response's task is still active
	// replaces the table entry (state queued) while the old task stays active
	for i := range c.Reqs {
		if run.Known("C06-rerequest-while-earlier-task-active") && r.RerequestWhileActive[i] {
			v.Excluded = "C06-rerequest-while-earlier-task-active"
			return v
		}
	}
	mixed, several, queued := false, false, false
	for k, s := range r.Snapshots {
		idle, busy := 0, 0
		for _, m := range []map[int]string{s.ReqStates, s.RespStates} {
			for _, st := range m {
				if st == graphsync.Paused.String() || st == graphsync.CompletingSend.String() {
					idle++
				} else {
					busy++
				}
			}
		}
		if idle > 0 && busy > 0 {
			mixed = true
		}
		if len(s.ReqStates) >= 2 || len(s.RespStates) >= 2 {
			several = true
		}
		if len(s.ReqPending) > 0 || len(s.RespPending) > 0 {
			queued = true
		}
		if len(s.ReqDiag) > 0 {
			return v.Failf("requestor quiescent after step %d (%s): reported request states disagree with its task queue: %v (states %v, active %v, pending %v)", k, s.After, s.ReqDiag, s.ReqStates, s.ReqActive, s.ReqPending)
		}
		if len(s.RespDiag) > 0 {
			return v.Failf("responder quiescent after step %d (%s): reported request states disagree with its task queue: %v (states %v, active %v, pending %v)", k, s.After, s.RespDiag, s.RespStates, s.RespActive, s.RespPending)
		}
	}
	last := r.Snapshots[len(r.Snapshots)-1]
	ended := len(last.ReqStates) == 0 && len(last.RespStates) == 0
	if ended {
		v.Label("all-requests-ended")
		if msg := zeroStats("requestor", r.FinalStats[0]); msg != "" {
			return v.Failf("%s", msg)
		}
		if msg := zeroStats("responder", r.FinalStats[1]); msg != "" {
			return v.Failf("%s", msg)
		}
	} else {
		v.Label("some-request-never-ended")
	}
	if mixed {
		v.Label("paused-or-completing-beside-queued-or-running")
	}
	if len(r.APIHung) > 0 {
		v.Label("api-call-never-returned")
	}
	if several {
		v.Label("several-requests-listed-at-once")
	}
	if queued {
		v.Label("a-request-waits-in-the-pending-queue")
	}
	v.NonTrivial = mixed || (several && queued)
	return v
}

func judgeResp(c resplife.Case) *pbt.Verdict {
	v := &pbt.Verdict{}
	r := resplife.Run(outerT, c)
	if r.Skip {
		v.Skip = true
		return v
	}
	if r.Panic != "" {
		return v.Failf("panic: %s", r.Panic)
	}
	for k, s := range r.Snapshots {
		if len(s.Diag) > 0 {
			return v.Failf("responder quiescent after step %d (%s): reported request states disagree with its task queue: %v (states %v, active %v, pending %v)", k, s.After, s.Diag, s.States, s.Active, s.Pend)
		}
	}
	if len(r.FinalStates) == 0 {
		v.Label("all-requests-ended")
		if r.StatsActive != 0 || r.StatsPending != 0 {
			return v.Failf("statistics report %d active / %d pending incoming requests after every request ended", r.StatsActive, r.StatsPending)
		}
		if r.Allocated != 0 || r.PendingAlloc != 0 {
			return v.Failf("statistics report %d bytes allocated / %d pending after every request ended", r.Allocated, r.PendingAlloc)
		}
	}
	if r.MixedSnapshot {
		v.Label("paused-or-completing-beside-queued-or-running")
	}
	v.NonTrivial = r.MixedSnapshot
	return v
}

var defDuo = pbt.Def[duo.Case]{Name: "both-sides-state-vs-queue", Gen: genDuo, Run: judgeDuo}
var defResp = pbt.Def[resplife.Case]{Name: "responder-state-vs-queue-under-faults", Gen: func(t *rapid.T) resplife.Case { return resplife.Gen(t, run.N(8, 16)) }, Run: judgeResp}

func TestProp(t *testing.T) {
	outerT = t
	pbt.Check(t, run, defDuo, 4000, 200000)
	pbt.Check(t, run, defResp, 4000, 200000)
}

func TestReplay(t *testing.T) {
	outerT = t
	pbt.Register(run, defDuo)
	pbt.Register(run, defResp)
	run.Replay(t)
}
