package c19

import (
	"context"
	"fmt"
	"testing"

	"github.com/ipfs/go-cid"
	"github.com/ipld/go-ipld-prime"
	cidlink "github.com/ipld/go-ipld-prime/linking/cid"
	"github.com/libp2p/go-libp2p/core/peer"
	mh "github.com/multiformats/go-multihash"
	"pgregory.net/rapid"

	"github.com/ipfs/go-graphsync"
	"github.com/ipfs/go-graphsync/linktracker"
	"github.com/ipfs/go-graphsync/messagequeue"
	"github.com/ipfs/go-graphsync/notifications"
	"github.com/ipfs/go-graphsync/responsemanager/responseassembler"

	"verif/harness/pbt"
)

var run = pbt.Init("C19")

func TestMain(m *testing.M) { pbt.Main(m, run) }

type Op struct {
	K       string `json:"k"` // open traverse finish finisherr clear
	Req     int    `json:"req"`
	Link    int    `json:"link,omitempty"`
	Present bool   `json:"present,omitempty"`
	Key     string `json:"key,omitempty"`    // open: dedup key ("" = default scope)
	Ignore  []int  `json:"ignore,omitempty"` // open: do-not-send links
	Skip    int    `json:"skip,omitempty"`   // open: skip count
}

type Case struct {
	Ops []Op `json:"ops"`
}

const nReqs, nLinks = 4, 6

func gen(t *rapid.T) Case {
	n := rapid.IntRange(1, 50).Draw(t, "nops")
	var c Case
	for i := 0; i < n; i++ {
		op := Op{Req: rapid.IntRange(0, nReqs-1).Draw(t, "req")}
		switch k := rapid.IntRange(0, 19).Draw(t, "k"); {
		case k < 4:
			op.K = "open"
			op.Key = rapid.SampledFrom([]string{"", "", "k1", "k2"}).Draw(t, "key")
			if rapid.IntRange(0, 3).Draw(t, "hasign") == 0 {
				op.Ignore = rapid.SliceOfNDistinct(rapid.IntRange(0, nLinks-1), 0, 3, rapid.ID[int]).Draw(t, "ignore")
			}
			if rapid.IntRange(0, 3).Draw(t, "hasskip") == 0 {
				op.Skip = rapid.IntRange(0, 4).Draw(t, "skip")
			}
		case k < 15:
			op.K = "traverse"
			op.Link = rapid.IntRange(0, nLinks-1).Draw(t, "link")
			op.Present = rapid.IntRange(0, 4).Draw(t, "present") > 0
		case k < 18:
			op.K = "finish"
		case k < 19:
			op.K = "finisherr"
		default:
			op.K = "clear"
		}
		c.Ops = append(c.Ops, op)
	}
	return c
}

var links, datas = func() ([]ipld.Link, [][]byte) {
	var ls []ipld.Link
	var ds [][]byte
	for i := 0; i < nLinks; i++ {
		d := []byte(fmt.Sprintf("block-%d", i))
		c, _ := cid.Prefix{Version: 1, Codec: cid.Raw, MhType: mh.SHA2_256, MhLength: 32}.Sum(d)
		ls = append(ls, cidlink.Link{Cid: c})
		ds = append(ds, d)
	}
	return ls, ds
}()

func reqID(i int) graphsync.RequestID {
	b := []byte("c19-request-id-0")
	b[15] = byte('0' + i)
	id, _ := graphsync.ParseRequestID(b)
	return id
}

// fake peer handler: runs the build function against a real message builder and keeps the result
type handler struct {
	lastBlocks map[cid.Cid]bool
	lastCodes  map[graphsync.RequestID]graphsync.ResponseStatusCode
}

func (h *handler) AllocateAndBuildMessage(p peer.ID, size uint64, f func(*messagequeue.Builder)) {
	b := messagequeue.NewBuilder(context.Background(), messagequeue.Topic(0))
	f(b)
	msg, err := b.Build()
	if err != nil {
		panic(err)
	}
	h.lastBlocks = map[cid.Cid]bool{}
	for _, blk := range msg.Blocks() {
		h.lastBlocks[blk.Cid()] = true
	}
	h.lastCodes = msg.ResponseCodes()
}

type nullSub struct{}

func (nullSub) OnNext(notifications.Topic, notifications.Event) {}
func (nullSub) OnClose(notifications.Topic)                     {}

// model
type mreq struct {
	open    bool
	scope   string
	present []int // links recorded present (incl. ignore list), for decrement
	missing bool
	count   int
	skip    int
}

func judge(c Case) *pbt.Verdict {
	v := &pbt.Verdict{}
	ctx := context.Background()
	p := peer.ID("peer-c19")
	h := &handler{}
	ra := responseassembler.New(ctx, h)
	streams := map[int]responseassembler.ResponseStream{}
	// (a) the bare link tracker is driven alongside for the default scope
	lt := linktracker.New()

	refc := map[string]map[int]int{} // scope -> link -> in-progress present traversals
	reqs := make([]*mreq, nReqs)
	for i := range reqs {
		reqs[i] = &mreq{}
	}
	get := func(scope string) map[int]int {
		if refc[scope] == nil {
			refc[scope] = map[int]int{}
		}
		return refc[scope]
	}
	overlapShared, finishedWhileOther := false, false
	finishModel := func(r *mreq) (full bool) {
		for _, l := range r.present {
			get(r.scope)[l]--
		}
		full = !r.missing
		for _, o := range reqs {
			if o != r && o.open && o.scope == r.scope && len(o.present) > 0 && len(r.present) > 0 {
				finishedWhileOther = true
			}
		}
		*r = mreq{}
		return
	}
	for step, op := range c.Ops {
		r := reqs[op.Req]
		id := reqID(op.Req)
		switch op.K {
		case "open":
			if r.open {
				continue // precondition: ids are not reused for a live request
			}
			*r = mreq{open: true, scope: op.Key, skip: op.Skip}
			s := ra.NewStream(ctx, p, id, nullSub{})
			streams[op.Req] = s
			// same order as prepareQuery: dedup key, ignore list, skip count
			if op.Key != "" {
				s.DedupKey(op.Key)
			}
			if len(op.Ignore) > 0 {
				var ls []ipld.Link
				for _, l := range op.Ignore {
					ls = append(ls, links[l])
					get(r.scope)[l]++
					r.present = append(r.present, l)
					if r.scope == "" {
						lt.RecordLinkTraversal(id, links[l], true)
					}
				}
				s.IgnoreBlocks(ls)
			}
			if op.Skip > 0 {
				s.SkipFirstBlocks(int64(op.Skip))
			}
		case "traverse":
			if !r.open {
				continue
			}
			var data []byte
			if op.Present {
				data = datas[op.Link]
			}
			r.count++
			wantSend := op.Present && r.count > r.skip && get(r.scope)[op.Link] == 0
			if op.Present {
				for _, o := range reqs {
					if o != r && o.open && o.scope == r.scope {
						for _, l := range o.present {
							if l == op.Link {
								overlapShared = true
							}
						}
					}
				}
				get(r.scope)[op.Link]++
				r.present = append(r.present, op.Link)
			} else {
				r.missing = true
			}
			if r.scope == "" {
				if got := lt.BlockRefCount(links[op.Link]); got != get("")[op.Link]-b2i(op.Present) {
					return v.Failf("op %d: LinkTracker.BlockRefCount(link %d)=%d, model %d", step, op.Link, got, get("")[op.Link]-b2i(op.Present))
				}
				lt.RecordLinkTraversal(id, links[op.Link], op.Present)
			}
			var bd graphsync.BlockData
			_ = streams[op.Req].Transaction(func(rb responseassembler.ResponseBuilder) error {
				bd = rb.SendResponse(links[op.Link], data)
				return nil
			})
			gotSend := h.lastBlocks[links[op.Link].(cidlink.Link).Cid]
			if gotSend != wantSend {
				return v.Failf("op %d: request %d traverses link %d (present=%v, index %d, skip %d, scope %q): block transmitted=%v, want %v", step, op.Req, op.Link, op.Present, r.count, r.skip, r.scope, gotSend, wantSend)
			}
			if (bd.BlockSizeOnWire() > 0) != wantSend && len(data) > 0 {
				return v.Failf("op %d: BlockData.BlockSizeOnWire()=%d but transmitted=%v", step, bd.BlockSizeOnWire(), wantSend)
			}
			if bd.Index() != int64(r.count) {
				return v.Failf("op %d: BlockData.Index()=%d, want %d", step, bd.Index(), r.count)
			}
		case "finish", "finisherr", "clear":
			if !r.open {
				continue
			}
			scope := r.scope
			full := finishModel(r)
			if scope == "" {
				if got := lt.FinishRequest(id); got != full {
					return v.Failf("op %d: LinkTracker.FinishRequest=%v, model %v", step, got, full)
				}
			}
			switch op.K {
			case "finish":
				var st graphsync.ResponseStatusCode
				_ = streams[op.Req].Transaction(func(rb responseassembler.ResponseBuilder) error {
					st = rb.FinishRequest()
					return nil
				})
				want := graphsync.RequestCompletedPartial
				if full {
					want = graphsync.RequestCompletedFull
				}
				if st != want || h.lastCodes[id] != want {
					return v.Failf("op %d: request %d finished with %s (on the wire %s), want %s", step, op.Req, st, h.lastCodes[id], want)
				}
			case "finisherr":
				_ = streams[op.Req].Transaction(func(rb responseassembler.ResponseBuilder) error {
					rb.FinishWithError(graphsync.RequestFailedUnknown)
					return nil
				})
			default:
				streams[op.Req].ClearRequest()
			}
		}
		// once every request has finished, no tracking state remains
		anyOpen := false
		for _, o := range reqs {
			anyOpen = anyOpen || o.open
		}
		if !anyOpen {
			if !ra.TrackingEmpty(p) {
				return v.Failf("op %d: every request has finished but the peer's link tracking state is not empty", step)
			}
			if !lt.Empty() {
				return v.Failf("op %d: every request has finished but LinkTracker.Empty() is false", step)
			}
		}
	}
	// finish the rest; state must be empty and a fresh request gets every block again
	for i, r := range reqs {
		if r.open {
			finishModel(r)
			streams[i].ClearRequest()
			lt.FinishRequest(reqID(i))
		}
	}
	if !ra.TrackingEmpty(p) || !lt.Empty() {
		return v.Failf("after finishing every request tracking state remains (assembler empty=%v, tracker empty=%v)", ra.TrackingEmpty(p), lt.Empty())
	}
	s := ra.NewStream(ctx, p, reqID(0), nullSub{})
	for l := 0; l < nLinks; l++ {
		_ = s.Transaction(func(rb responseassembler.ResponseBuilder) error { rb.SendResponse(links[l], datas[l]); return nil })
		if !h.lastBlocks[links[l].(cidlink.Link).Cid] {
			return v.Failf("after every request finished, a later request is not sent block %d", l)
		}
	}
	s.ClearRequest()
	if overlapShared {
		v.Label("overlapping-requests-share-link")
	}
	v.NonTrivial = overlapShared && finishedWhileOther
	return v
}

func b2i(b bool) int {
	if b {
		return 1
	}
	return 0
}

var def = pbt.Def[Case]{Name: "linktracking-model", Gen: gen, Run: judge}

func TestProp(t *testing.T) {
	pbt.Check(t, run, def, 60000, 3000000)
}

func TestReplay(t *testing.T) {
	pbt.Register(run, def)
	run.Replay(t)
}
