package c21

import (
	"strings"
	"testing"

	"pgregory.net/rapid"

	"verif/harness/pbt"
	"verif/harness/scen/resplife"
)

// ---------- (c) the responder's limits under request lifecycles ----------
//
// One real responder, two scripted peers, 1-4 requests living through hooks, pauses, resumes, cancels,
// updates, send faults and disconnects (the responder-lifecycle scenario of C05), with the instance-wide and
// per-peer maxima set. At every quiescent point the traversals picked up by workers must respect both
// maxima -- a resumed, re-queued or replaced request counts like a fresh one -- and at the end nothing is
// left waiting: no task, no request state, and a fresh request of each peer is served in full.

func genLife(t *rapid.T) resplife.Case {
	c := resplife.Gen(t, run.N(8, 14))
	c.MaxInProg = rapid.SampledFrom([]int{1, 2, 2, 3}).Draw(t, "maxin2")
	c.PerPeer = rapid.SampledFrom([]int{0, 1, 1, 2}).Draw(t, "perpeer2")
	if len(c.Reqs) >= 2 && rapid.IntRange(0, 4).Draw(t, "resumed-then-next") == 0 {
		// a response is paused, resumed and held running by the storage gate while the same peer's next
		// request arrives
		c.Reqs[0].ReqHook, c.Reqs[0].PauseAt, c.Reqs[0].ErrAt = rapid.SampledFrom([]string{"pause", "validate"}).Draw(t, "how"), 1, 0
		c.Reqs[1].Peer, c.Reqs[1].ReqHook = c.Reqs[0].Peer, "validate"
		c.GateAt, c.GateAll = rapid.IntRange(1, 3).Draw(t, "gate2"), true
		pre := []resplife.Op{{K: "new", R: 0, Fast: true}, {K: "apiunpause", R: 0, Fast: true}, {K: "apiunpause", R: 0, Fast: true}, {K: "new", R: 1, Fast: true}}
		c.Ops = append(pre, c.Ops...)
	}
	return c
}

func judgeLife(c resplife.Case) *pbt.Verdict {
	v := &pbt.Verdict{}
	r := resplife.Run(outerT, c)
	if r.Skip {
		v.Skip = true
		return v
	}
	if r.Panic != "" {
		return v.Failf("panic: %s", r.Panic)
	}
	binding := false
	for k, s := range r.Snapshots {
		perPeer := map[string]int{}
		for _, a := range s.Active {
			perPeer[a[:strings.LastIndex(a, ":")]]++
		}
		if len(s.Active) > c.MaxInProg {
			return v.Failf("snapshot %d (after %s): %d traversals picked up by workers %v, MaxInProgressIncomingRequests=%d", k, s.After, len(s.Active), s.Active, c.MaxInProg)
		}
		for p, n := range perPeer {
			if c.PerPeer > 0 && n > c.PerPeer {
				return v.Failf("snapshot %d (after %s): %d traversals for peer %s at once %v, per-peer maximum %d", k, s.After, n, p, s.Active, c.PerPeer)
			}
			if len(s.Pend) > 0 && (n == c.PerPeer || len(s.Active) == c.MaxInProg) {
				binding = true
			}
		}
	}
	if binding {
		v.Label("a-limit-was-binding-with-requests-waiting")
	}
	for l := range r.Labels {
		v.Label(l)
	}
	v.NonTrivial = binding && r.LiveHits > 0
	if len(r.FinalTasks) > 0 {
		return v.Failf("tasks are still queued or active when everything is quiet and every pause has been lifted: %v (states %v)", r.FinalTasks, r.FinalStates)
	}
	if r.StatsActive != 0 || r.StatsPending != 0 {
		return v.Failf("Stats() still counts %d active / %d pending incoming requests at the end", r.StatsActive, r.StatsPending)
	}
	if len(r.FinalStates) == 0 {
		for p, miss := range r.ProbeMissing {
			return v.Failf("a fresh request of peer %s submitted after the history was not served in full (%d blocks never sent)", p, len(miss))
		}
	}
	return v
}

var defLife = pbt.Def[resplife.Case]{Name: "responder-limits-under-lifecycles", Gen: genLife, Run: judgeLife}

func TestPropLife(t *testing.T) {
	outerT = t
	pbt.Check(t, run, defLife, 4000, 200000)
}
