package c21

import (
	"context"
	"fmt"
	"sort"
	"sync"
	"testing"
	"testing/synctest"
	"time"

	"github.com/ipfs/go-peertaskqueue"
	"github.com/ipfs/go-peertaskqueue/peertask"
	"github.com/libp2p/go-libp2p/core/peer"
	"pgregory.net/rapid"

	"github.com/ipfs/go-graphsync/taskqueue"

	"verif/harness/dagen"
	"verif/harness/pbt"
	"verif/harness/scen/duo"
)

var run = pbt.Init("C21")
var outerT *testing.T

func TestMain(m *testing.M) { pbt.Main(m, run) }

// ---------- (a) the worker task queue with an instrumented executor ----------

type QOp struct {
	K  string `json:"k"` // push remove finish tick
	P  int    `json:"p"` // peer
	T  int    `json:"t"` // for remove / finish: index among that peer's pending / the running tasks
	Pr int    `json:"pr"`
}

type QCase struct {
	Workers int   `json:"workers"`
	PerPeer int   `json:"per_peer"` // MaxOutstandingWorkPerPeer (0 = unset)
	Peers   int   `json:"peers"`
	Ops     []QOp `json:"ops"`
}

func genQ(t *rapid.T) QCase {
	c := QCase{Workers: rapid.IntRange(1, 4).Draw(t, "workers"), PerPeer: rapid.SampledFrom([]int{0, 0, 1, 2}).Draw(t, "perpeer"), Peers: rapid.IntRange(2, 4).Draw(t, "peers")}
	n := rapid.IntRange(3, 40).Draw(t, "nops")
	for i := 0; i < n; i++ {
		c.Ops = append(c.Ops, QOp{K: rapid.SampledFrom([]string{"push", "push", "push", "finish", "finish", "remove", "tick"}).Draw(t, "k"), P: rapid.IntRange(0, c.Peers-1).Draw(t, "p"), T: rapid.IntRange(0, 5).Draw(t, "t"), Pr: rapid.IntRange(0, 3).Draw(t, "pr")})
	}
	return c
}

type exec struct {
	mu       sync.Mutex
	tq       *taskqueue.WorkerTaskQueue
	running  map[int]chan struct{} // topic -> release
	runPeer  map[int]peer.ID
	started  map[int]int
	finished map[int]int
	maxRun   int
	maxPeer  int
}

func (e *exec) ExecuteTask(ctx context.Context, p peer.ID, task *peertask.Task) bool {
	topic := task.Topic.(int)
	ch := make(chan struct{})
	e.mu.Lock()
	e.running[topic] = ch
	e.runPeer[topic] = p
	e.started[topic]++
	if len(e.running) > e.maxRun {
		e.maxRun = len(e.running)
	}
	per := 0
	for _, q := range e.runPeer {
		if q == p {
			per++
		}
	}
	if per > e.maxPeer {
		e.maxPeer = per
	}
	e.mu.Unlock()
	select {
	case <-ch:
	case <-ctx.Done():
		return true
	}
	e.mu.Lock()
	delete(e.running, topic)
	delete(e.runPeer, topic)
	e.finished[topic]++
	e.mu.Unlock()
	e.tq.TaskDone(p, task)
	return false
}

func judgeQ(c QCase) *pbt.Verdict {
	v := &pbt.Verdict{}
	var fail string
	bound, starvedPeers := false, false
	func() {
		defer func() {
			if r := recover(); r != nil {
				fail = fmt.Sprintf("bubble did not finish: %v", r)
			}
		}()
		synctest.Test(outerT, func(t *testing.T) {
			ctx, cancel := context.WithCancel(context.Background())
			defer cancel()
			var opts []peertaskqueue.Option
			if c.PerPeer > 0 {
				opts = append(opts, peertaskqueue.MaxOutstandingWorkPerPeer(c.PerPeer))
			}
			tq := taskqueue.NewTaskQueue(ctx, opts...)
			e := &exec{tq: tq, running: map[int]chan struct{}{}, runPeer: map[int]peer.ID{}, started: map[int]int{}, finished: map[int]int{}}
			tq.Startup(uint64(c.Workers), e)
			peers := []peer.ID{"peer-a", "peer-b", "peer-c", "peer-d"}
			next := 0
			pending := map[int][]int{} // peer -> topics pushed, not yet started, not removed (by the model)
			removed := map[int]bool{}
			pushed := map[int]int{}
			check := func(after string) {
				synctest.Wait()
				e.mu.Lock()
				defer e.mu.Unlock()
				if fail != "" {
					return
				}
				if len(e.running) > c.Workers {
					fail = fmt.Sprintf("after %s: %d tasks execute at once with %d workers", after, len(e.running), c.Workers)
				}
				per := map[peer.ID]int{}
				for _, p := range e.runPeer {
					per[p]++
				}
				for p, n := range per {
					if c.PerPeer > 0 && n > c.PerPeer {
						fail = fmt.Sprintf("after %s: %d tasks of %s execute at once, per-peer limit %d", after, n, p, c.PerPeer)
					}
					if c.PerPeer > 0 && n == c.PerPeer {
						bound = true
					}
				}
				if len(e.running) == c.Workers {
					waiting := 0
					for pi, ts := range pending {
						for _, tp := range ts {
							if e.started[tp] == 0 && !removed[tp] {
								waiting++
								_ = pi
							}
						}
					}
					if waiting > 0 {
						bound = true
					}
				}
				for tp, n := range e.started {
					if n > 1 {
						fail = fmt.Sprintf("after %s: task %d was executed %d times", after, tp, n)
					}
					if removed[tp] && pushed[tp] > 0 {
						// a task removed while pending must not run afterwards (it may have started before the removal)
					}
				}
			}
			for k, op := range c.Ops {
				p := op.P % c.Peers
				switch op.K {
				case "push":
					tq.PushTask(peers[p], peertask.Task{Topic: next, Priority: op.Pr, Work: 1})
					pending[p] = append(pending[p], next)
					pushed[next] = 1
					next++
				case "remove":
					// cancel one of the peer's tasks that has not started yet
					var cand []int
					e.mu.Lock()
					for _, tp := range pending[p] {
						if e.started[tp] == 0 && !removed[tp] {
							cand = append(cand, tp)
						}
					}
					e.mu.Unlock()
					if len(cand) > 0 {
						tp := cand[op.T%len(cand)]
						removed[tp] = true
						tq.Remove(tp, peers[p])
					}
				case "finish":
					e.mu.Lock()
					var run []int
					for tp := range e.running {
						run = append(run, tp)
					}
					sort.Ints(run)
					var ch chan struct{}
					if len(run) > 0 {
						ch = e.running[run[op.T%len(run)]]
					}
					e.mu.Unlock()
					if ch != nil {
						close(ch)
					}
				case "tick":
					time.Sleep(120 * time.Millisecond)
				}
				check(fmt.Sprintf("op %d (%s)", k, op.K))
			}
			// every started task is allowed to finish, repeatedly, and time passes the thaw interval
			for round := 0; round < 200; round++ {
				synctest.Wait()
				e.mu.Lock()
				var chans []chan struct{}
				for _, ch := range e.running {
					chans = append(chans, ch)
				}
				e.mu.Unlock()
				if len(chans) == 0 {
					time.Sleep(time.Second)
					synctest.Wait()
					e.mu.Lock()
					n := len(e.running)
					e.mu.Unlock()
					if n == 0 {
						break
					}
					continue
				}
				for _, ch := range chans {
					close(ch)
				}
				check("final release")
			}
			time.Sleep(5 * time.Second)
			synctest.Wait()
			e.mu.Lock()
			for tp := range pushed {
				if removed[tp] {
					if e.started[tp] > 0 {
						// removed after being chosen as not-started: must never have run
						fail = orStr(fail, fmt.Sprintf("task %d ran although it was removed while it was still pending", tp))
					}
					continue
				}
				if e.started[tp] != 1 || e.finished[tp] != 1 {
					fail = orStr(fail, fmt.Sprintf("task %d (pushed, never removed) was started %d times and finished %d times by the end; stats %+v", tp, e.started[tp], e.finished[tp], tq.Stats()))
				}
			}
			peersWithWork := map[int]bool{}
			for p, ts := range pending {
				if len(ts) > 0 {
					peersWithWork[p] = true
				}
			}
			starvedPeers = len(peersWithWork) >= 2
			e.mu.Unlock()
			cancel()
			synctest.Wait()
		})
	}()
	v.NonTrivial = bound && starvedPeers
	if bound {
		v.Label("a-limit-was-binding")
	}
	if fail != "" {
		return v.Failf("%s", fail)
	}
	return v
}

func orStr(a, b string) string {
	if a != "" {
		return a
	}
	return b
}

// ---------- (b) real instances: limits against held executions, and completion ----------

func genDuo(t *rapid.T) duo.Case {
	d := dagen.GenDAG(t, dagen.GenOpts{MaxBlocks: run.N(8, 16), MaxDepth: 2})
	c := duo.Case{DAG: d, Sel: dagen.RecAll(-1)}
	for range d.Blocks {
		c.Split = append(c.Split, 2)
	}
	n := rapid.IntRange(2, 4).Draw(t, "nreqs")
	for i := 0; i < n; i++ {
		r := duo.ReqSpec{Prio: rapid.IntRange(0, 2).Draw(t, "prio")}
		if rapid.IntRange(0, 2).Draw(t, "subroot") == 0 {
			r.Root = rapid.IntRange(1, 3).Draw(t, "root")
		}
		switch rapid.IntRange(0, 2).Draw(t, "hold") {
		case 0:
			r.RespGateAt = rapid.IntRange(1, 3).Draw(t, "sg")
		case 1:
			r.ReqGateAt = rapid.IntRange(1, 3).Draw(t, "qg")
		}
		c.Reqs = append(c.Reqs, r)
	}
	for i := 0; i < n; i++ {
		c.Ops = append(c.Ops, duo.Op{K: "start", R: i})
	}
	c.Ops = append(c.Ops, duo.GenOps(t, n, 30, []string{"deliver", "deliver", "deliver", "deliver", "sgate", "qgate", "tick"})...)
	c.MaxOut = rapid.SampledFrom([]int{1, 1, 2, 3}).Draw(t, "maxout")
	c.MaxIn = rapid.SampledFrom([]int{1, 1, 2, 3}).Draw(t, "maxin")
	c.PerPeer = rapid.SampledFrom([]int{0, 0, 1}).Draw(t, "perpeer")
	return c
}

func judgeDuo(c duo.Case) *pbt.Verdict {
	v := &pbt.Verdict{}
	r := duo.Run(outerT, c)
	if r.Skip {
		v.Skip = true
		return v
	}
	if r.Panic != "" {
		return v.Failf("panic: %s", r.Panic)
	}
	inLim := c.MaxIn
	if c.PerPeer > 0 && c.PerPeer < inLim {
		inLim = c.PerPeer // one requesting peer only
	}
	binding := false
	for k, s := range r.Snapshots {
		if s.HeldReq > c.MaxOut || len(s.ReqActive) > c.MaxOut {
			return v.Failf("step %d (%s): requestor runs %d request executions at once (%d held inside the harness's gates), MaxInProgressOutgoingRequests=%d", k, s.After, len(s.ReqActive), s.HeldReq, c.MaxOut)
		}
		if s.HeldResp > inLim || len(s.RespActive) > inLim {
			return v.Failf("step %d (%s): responder runs %d traversals at once (%d held inside the harness's gates), limit %d (max %d, per peer %d)", k, s.After, len(s.RespActive), s.HeldResp, inLim, c.MaxIn, c.PerPeer)
		}
		if (len(s.ReqActive) == c.MaxOut && len(s.ReqPending) > 0) || (len(s.RespActive) == inLim && len(s.RespPending) > 0) {
			binding = true
		}
	}
	v.NonTrivial = binding
	if binding {
		v.Label("a-limit-was-binding-with-requests-waiting")
	}
	for i, q := range r.Reqs {
		if !q.RespClosed || !q.ErrClosed {
			return v.Failf("request %d was never executed to the end although nothing cancelled it (channels still open at final quiescence)", i)
		}
	}
	return v
}

var defQ = pbt.Def[QCase]{Name: "task-queue-limits-and-completion", Gen: genQ, Run: judgeQ}
var defDuo = pbt.Def[duo.Case]{Name: "instance-limits-and-completion", Gen: genDuo, Run: judgeDuo}

func TestProp(t *testing.T) {
	outerT = t
	pbt.Check(t, run, defQ, 6000, 500000)
	pbt.Check(t, run, defDuo, 3000, 100000)
}

func TestReplay(t *testing.T) {
	outerT = t
	pbt.Register(run, defQ)
	pbt.Register(run, defDuo)
	pbt.Register(run, defLife)
	run.Replay(t)
}
