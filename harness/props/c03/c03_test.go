package c03

import (
	"bytes"
	"context"
	"fmt"
	"testing"

	"github.com/ipfs/go-cid"
	"github.com/ipld/go-ipld-prime/datamodel"
	"github.com/ipld/go-ipld-prime/node/basicnode"
	"github.com/libp2p/go-libp2p/core/peer"
	"pgregory.net/rapid"

	"github.com/ipfs/go-graphsync"
	"github.com/ipfs/go-graphsync/cidset"
	"github.com/ipfs/go-graphsync/donotsendfirstblocks"
	gsmsg "github.com/ipfs/go-graphsync/message"

	"verif/harness/dagen"
	"verif/harness/pbt"
	"verif/harness/scen"
	"verif/harness/sim"
)

var run = pbt.Init("C03")
var outerT *testing.T

func TestMain(m *testing.M) { pbt.Main(m, run) }

type ReqSpec struct {
	Skip      int    `json:"skip"` // -1 = no extension
	Cids      []int  `json:"cids"` // do-not-send-cids (indices of distinct blocks)
	HasCids   bool   `json:"has_cids"`
	DedupKey  string `json:"dedup_key"` // "" = none
	Malformed string `json:"malformed"` // "", "skip", "cids", "dedup": that extension carries a wrong-kind payload
}

type Case struct {
	Base scen.Base `json:"base"`
	Reqs []ReqSpec `json:"reqs"` // 1 or 2 requests, run one after the other
	// Overlap (two requests): the responder pauses request 0 after PauseAt links; request 1 then arrives and
	// runs to its end while request 0 is still in progress; request 0 is resumed afterwards
	Overlap bool `json:"overlap"`
	PauseAt int  `json:"pause_at"`
}

func genReq(t *rapid.T, nblocks int) ReqSpec {
	r := ReqSpec{Skip: -1}
	if rapid.IntRange(0, 2).Draw(t, "hasskip") == 0 {
		r.Skip = rapid.IntRange(0, 5).Draw(t, "skip")
	}
	if rapid.IntRange(0, 2).Draw(t, "hascids") == 0 {
		r.HasCids = true
		r.Cids = rapid.SliceOfNDistinct(rapid.IntRange(0, nblocks-1), 0, 4, rapid.ID[int]).Draw(t, "cids")
	}
	if rapid.IntRange(0, 3).Draw(t, "hasdedup") == 0 {
		r.DedupKey = rapid.SampledFrom([]string{"k1", "k2", ""}).Draw(t, "dedup")
	}
	if rapid.IntRange(0, 11).Draw(t, "malformed") == 0 {
		r.Malformed = rapid.SampledFrom([]string{"skip", "cids", "dedup"}).Draw(t, "which")
	}
	return r
}

func gen(t *rapid.T) Case {
	c := Case{Base: scen.GenBase(t, run.N(12, 30))}
	n := rapid.IntRange(1, 2).Draw(t, "nreqs")
	for i := 0; i < n; i++ {
		c.Reqs = append(c.Reqs, genReq(t, len(c.Base.DAG.Blocks)))
	}
	if n == 2 && rapid.Bool().Draw(t, "overlap") {
		c.Overlap = true
		c.PauseAt = rapid.SampledFrom([]int{1, 1, 2, 2, 3, 4, 6}).Draw(t, "pauseat")
		if rapid.Bool().Draw(t, "samescope") {
			c.Reqs[1].DedupKey = c.Reqs[0].DedupKey
		}
	}
	return c
}

func reqID(i int) graphsync.RequestID {
	b := []byte("c03-request-id-0")
	b[15] = byte('0' + i)
	id, err := graphsync.ParseRequestID(b)
	if err != nil {
		panic(err)
	}
	return id
}

func (r ReqSpec) exts(b *dagen.Built) ([]graphsync.ExtensionData, *cid.Set) {
	var out []graphsync.ExtensionData
	set := cid.NewSet()
	wrong := func() datamodel.Node { return basicnode.NewBool(true) }
	if r.Skip >= 0 || r.Malformed == "skip" {
		d := donotsendfirstblocks.EncodeDoNotSendFirstBlocks(int64(max(r.Skip, 0)))
		if r.Malformed == "skip" {
			d = wrong()
		}
		out = append(out, graphsync.ExtensionData{Name: graphsync.ExtensionsDoNotSendFirstBlocks, Data: d})
	}
	if r.HasCids || r.Malformed == "cids" {
		for _, i := range r.Cids {
			if i < len(b.Order) {
				set.Add(b.Order[i])
			}
		}
		d := cidset.EncodeCidSet(set)
		if r.Malformed == "cids" {
			d = wrong()
		}
		out = append(out, graphsync.ExtensionData{Name: graphsync.ExtensionDoNotSendCIDs, Data: d})
	}
	if r.DedupKey != "" || r.Malformed == "dedup" {
		var d datamodel.Node = basicnode.NewString(r.DedupKey)
		if r.Malformed == "dedup" {
			d = wrong()
		}
		out = append(out, graphsync.ExtensionData{Name: graphsync.ExtensionDeDupByKey, Data: d})
	}
	return out, set
}

func judge(c Case) *pbt.Verdict {
	v := &pbt.Verdict{}
	if !c.Base.Sel.WellFormed() {
		v.Skip = true
		return v
	}
	b, err := c.Base.DAG.Build()
	if err != nil {
		v.Skip = true
		return v
	}
	split := append(dagen.Split(nil), c.Base.Split...)
	for len(split) < len(b.Order) {
		split = append(split, 2)
	}
	_, respStore := b.Stores(split)
	sel := dagen.Canonical(c.Base.Sel.Node())
	ref := dagen.RefStore(b.Root, respStore, sel, 0)
	if ref.Err != nil {
		v.Skip = true
		return v
	}

	var msgs []*sim.Envelope
	ro := sim.Run(outerT, func(w *sim.World) {
		rs := w.AddInstance(scen.RespID, sim.NewStore(respStore, true))
		scen.ValidateAll(rs)
		w.AddScripted(scen.ReqID)
		if c.Overlap {
			rs.GS.RegisterOutgoingBlockHook(func(_ peer.ID, r graphsync.RequestData, blk graphsync.BlockData, ha graphsync.OutgoingBlockHookActions) {
				if r.ID() == reqID(0) && blk.Index() == int64(c.PauseAt) {
					ha.PauseResponse()
				}
			})
		}
		for i, r := range c.Reqs {
			exts, _ := r.exts(b)
			req := gsmsg.NewRequest(reqID(i), b.Root, c.Base.Sel.Node(), graphsync.Priority(i), exts...)
			if err := w.Net.Inject(scen.ReqID, scen.RespID, gsmsg.NewMessage(map[graphsync.RequestID]gsmsg.GraphSyncRequest{req.ID(): req}, nil, nil)); err != nil {
				panic(err)
			}
			w.Quiesce()
		}
		if c.Overlap {
			_ = rs.GS.Unpause(context.Background(), reqID(0))
			w.Quiesce()
		}
		for _, e := range w.Net.Sent {
			if e.From == scen.RespID {
				msgs = append(msgs, e)
			}
		}
	})
	if ro.Panic != "" {
		return v.Failf("panic: %s", ro.Panic)
	}

	missing, repeated := false, false
	seenC := map[cid.Cid]bool{}
	for _, l := range ref.Loads {
		if !l.Present {
			missing = true
		}
		if seenC[l.Cid] {
			repeated = true
		}
		seenC[l.Cid] = true
	}
	anyExt := false
	for _, r := range c.Reqs {
		if r.Skip >= 0 || r.HasCids || r.DedupKey != "" {
			anyExt = true
		}
	}
	f, overlapped, scopeHit := judgeAll(c, b, respStore, ref, msgs)
	if f != "" {
		return v.Failf("%s", f)
	}
	if overlapped {
		v.Label("request-arrives-while-another-is-in-progress")
	}
	if scopeHit {
		v.Label("block-withheld-because-in-progress-request-sent-it")
	}
	if missing {
		v.Label("missing-link")
	}
	if repeated {
		v.Label("repeated-link")
	}
	if anyExt {
		v.Label("extension")
	}
	if len(c.Reqs) == 2 {
		v.Label("two-sequential-requests")
	}
	v.NonTrivial = len(ref.Loads) >= 3 && (missing || repeated || anyExt)
	v.Note = fmt.Sprintf("sel=%s loads=%d", c.Base.Sel, len(ref.Loads))
	return v
}

// judgeAll replays the responder's messages in wire order against a model of the deduplication scopes: a
// scope (the default one, or one per dedup key) remembers, per link, which requests in progress have
// traversed it as present and which have carried its block; a request's entries leave the scope with its
// terminal status.
func judgeAll(c Case, b *dagen.Built, respStore map[cid.Cid][]byte, ref *dagen.Ref, msgs []*sim.Envelope) (fail string, overlapped, scopeHit bool) {
	n := len(c.Reqs)
	idx := map[graphsync.RequestID]int{}
	dns := make([]*cid.Set, n)
	for i, r := range c.Reqs {
		idx[reqID(i)] = i
		_, dns[i] = r.exts(b)
	}
	scopeOf := func(i int) string {
		if c.Reqs[i].DedupKey != "" {
			return "key:" + c.Reqs[i].DedupKey
		}
		return "default"
	}
	type sets struct{ trav, carried map[int]bool }
	scopes := map[string]map[cid.Cid]*sets{}
	at := func(sc string, k cid.Cid) *sets {
		if scopes[sc] == nil {
			scopes[sc] = map[cid.Cid]*sets{}
		}
		if scopes[sc][k] == nil {
			scopes[sc][k] = &sets{map[int]bool{}, map[int]bool{}}
		}
		return scopes[sc][k]
	}
	started := make([]bool, n)
	ended := make([]bool, n)
	pos := make([]int, n) // entries seen so far
	statuses := make([][]graphsync.ResponseStatusCode, n)
	anyMissing := make([]bool, n)
	rootMissing := len(ref.Loads) > 0 && !ref.Loads[0].Present
	for _, e := range msgs {
		bm := map[cid.Cid][]byte{}
		for _, blk := range e.Msg.Blocks() {
			bm[blk.Cid()] = blk.RawData()
		}
		justified := map[cid.Cid]bool{}
		for _, rsp := range e.Msg.Responses() {
			i, ok := idx[rsp.RequestID()]
			if !ok {
				return fmt.Sprintf("response for unknown request id %s", rsp.RequestID()), overlapped, scopeHit
			}
			r := c.Reqs[i]
			if ended[i] {
				return fmt.Sprintf("request %d: response after its terminal status (statuses %v, then %s)", i, statuses[i], rsp.Status()), overlapped, scopeHit
			}
			if !started[i] {
				started[i] = true
				for j := 0; j < n; j++ {
					if j != i && started[j] && !ended[j] {
						overlapped = true
					}
				}
				if r.Malformed == "" && r.HasCids {
					// the request's do-not-send list enters its scope when the request is set up
					_ = dns[i].ForEach(func(k cid.Cid) error { at(scopeOf(i), k).trav[i] = true; return nil })
				}
			}
			statuses[i] = append(statuses[i], rsp.Status())
			var entries []struct {
				c cid.Cid
				a graphsync.LinkAction
			}
			rsp.Metadata().Iterate(func(k cid.Cid, a graphsync.LinkAction) {
				entries = append(entries, struct {
					c cid.Cid
					a graphsync.LinkAction
				}{k, a})
			})
			if r.Malformed == "" && !rootMissing {
				for _, en := range entries {
					k := pos[i]
					pos[i]++
					if k >= len(ref.Loads) {
						return fmt.Sprintf("request %d: more metadata entries than the traversal visits links (%d)", i, len(ref.Loads)), overlapped, scopeHit
					}
					l := ref.Loads[k]
					if !en.c.Equals(l.Cid) {
						return fmt.Sprintf("request %d: metadata entry %d is %s, traversal visits %s at %q", i, k, en.c, l.Cid, l.Path), overlapped, scopeHit
					}
					wantA := graphsync.LinkActionPresent
					if !l.Present {
						wantA = graphsync.LinkActionMissing
						anyMissing[i] = true
					}
					if en.a != wantA {
						return fmt.Sprintf("request %d: metadata entry %d (%s at %q) marked %s, want %s", i, k, l.Cid, l.Path, en.a, wantA), overlapped, scopeHit
					}
					if !l.Present {
						continue
					}
					st := at(scopeOf(i), l.Cid)
					excluded := k+1 <= r.Skip || dns[i].Has(l.Cid)
					byOther := false
					for j := range st.carried {
						if j != i {
							byOther = true
						}
					}
					must := !excluded && len(st.trav) == 0
					forbidden := excluded || len(st.carried) > 0
					data, inMsg := bm[l.Cid]
					switch {
					case must && !inMsg:
						return fmt.Sprintf("request %d: block %s (entry %d, path %q) not carried in the message holding its metadata", i, l.Cid, k, l.Path), overlapped, scopeHit
					case inMsg && !justified[l.Cid] && forbidden:
						return fmt.Sprintf("request %d: block %s (entry %d) carried although excluded (skip=%d, do-not-send=%v) or already sent in its scope by a request still in progress (%v)", i, l.Cid, k, r.Skip, dns[i].Has(l.Cid), st.carried), overlapped, scopeHit
					}
					if inMsg && !justified[l.Cid] {
						if !bytes.Equal(data, respStore[l.Cid]) {
							return fmt.Sprintf("request %d: block %s carried with bytes differing from the store's", i, l.Cid), overlapped, scopeHit
						}
						justified[l.Cid] = true
						st.carried[i] = true
					} else if !inMsg && byOther && !excluded {
						scopeHit = true
					}
					st.trav[i] = true
				}
			}
			if rsp.Status().IsTerminal() {
				ended[i] = true
				for _, m := range scopes[scopeOf(i)] {
					delete(m.trav, i)
					delete(m.carried, i)
				}
			}
		}
		for k := range bm {
			if !justified[k] {
				return fmt.Sprintf("block %s carried in a message without a metadata entry that may carry it", k), overlapped, scopeHit
			}
		}
	}
	for i, r := range c.Reqs {
		if len(statuses[i]) == 0 {
			return fmt.Sprintf("request %d: no response at all", i), overlapped, scopeHit
		}
		if !ended[i] {
			return fmt.Sprintf("request %d: no terminal status (statuses %v)", i, statuses[i]), overlapped, scopeHit
		}
		final := statuses[i][len(statuses[i])-1]
		switch {
		case r.Malformed != "":
			if final != graphsync.RequestFailedUnknown {
				return fmt.Sprintf("request %d: malformed %s extension: final status %s, want RequestFailedUnknown", i, r.Malformed, final), overlapped, scopeHit
			}
		case rootMissing:
			if final != graphsync.RequestFailedContentNotFound {
				return fmt.Sprintf("request %d: root block missing: final status %s, want RequestFailedContentNotFound", i, final), overlapped, scopeHit
			}
		default:
			if pos[i] != len(ref.Loads) {
				return fmt.Sprintf("request %d: %d metadata entries, traversal visits %d links", i, pos[i], len(ref.Loads)), overlapped, scopeHit
			}
			want := graphsync.RequestCompletedFull
			if anyMissing[i] {
				want = graphsync.RequestCompletedPartial
			}
			if final != want {
				return fmt.Sprintf("request %d: final status %s, want %s", i, final, want), overlapped, scopeHit
			}
		}
	}
	return "", overlapped, scopeHit
}

var def = pbt.Def[Case]{Name: "responder-mirror", Gen: gen, Run: judge}

func TestProp(t *testing.T) {
	outerT = t
	pbt.Check(t, run, def, 15000, 1000000)
}

func TestReplay(t *testing.T) {
	outerT = t
	pbt.Register(run, def)
	run.Replay(t)
}
