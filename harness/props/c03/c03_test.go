package c03

import (
	"bytes"
	"fmt"
	"testing"

	"github.com/ipfs/go-cid"
	"github.com/ipld/go-ipld-prime/datamodel"
	"github.com/ipld/go-ipld-prime/node/basicnode"
	"pgregory.net/rapid"

	"github.com/ipfs/go-graphsync"
	"github.com/ipfs/go-graphsync/cidset"
	"github.com/ipfs/go-graphsync/donotsendfirstblocks"
	gsmsg "github.com/ipfs/go-graphsync/message"

	"verif/harness/dagen"
	"verif/harness/pbt"
	"verif/harness/scen"
	"verif/harness/sim"
)

var run = pbt.Init("C03")
var outerT *testing.T

func TestMain(m *testing.M) { pbt.Main(m, run) }

type ReqSpec struct {
	Skip      int    `json:"skip"` // -1 = no extension
	Cids      []int  `json:"cids"` // do-not-send-cids (indices of distinct blocks)
	HasCids   bool   `json:"has_cids"`
	DedupKey  string `json:"dedup_key"` // "" = none
	Malformed string `json:"malformed"` // "", "skip", "cids", "dedup": that extension carries a wrong-kind payload
}

type Case struct {
	Base scen.Base `json:"base"`
	Reqs []ReqSpec `json:"reqs"` // 1 or 2 requests, run one after the other
}

func genReq(t *rapid.T, nblocks int) ReqSpec {
	r := ReqSpec{Skip: -1}
	if rapid.IntRange(0, 2).Draw(t, "hasskip") == 0 {
		r.Skip = rapid.IntRange(0, 5).Draw(t, "skip")
	}
	if rapid.IntRange(0, 2).Draw(t, "hascids") == 0 {
		r.HasCids = true
		r.Cids = rapid.SliceOfNDistinct(rapid.IntRange(0, nblocks-1), 0, 4, rapid.ID[int]).Draw(t, "cids")
	}
	if rapid.IntRange(0, 3).Draw(t, "hasdedup") == 0 {
		r.DedupKey = rapid.SampledFrom([]string{"k1", "k2", ""}).Draw(t, "dedup")
	}
	if rapid.IntRange(0, 11).Draw(t, "malformed") == 0 {
		r.Malformed = rapid.SampledFrom([]string{"skip", "cids", "dedup"}).Draw(t, "which")
	}
	return r
}

func gen(t *rapid.T) Case {
	c := Case{Base: scen.GenBase(t, run.N(12, 30))}
	n := rapid.IntRange(1, 2).Draw(t, "nreqs")
	for i := 0; i < n; i++ {
		c.Reqs = append(c.Reqs, genReq(t, len(c.Base.DAG.Blocks)))
	}
	return c
}

func reqID(i int) graphsync.RequestID {
	b := []byte("c03-request-id-0")
	b[15] = byte('0' + i)
	id, err := graphsync.ParseRequestID(b)
	if err != nil {
		panic(err)
	}
	return id
}

func (r ReqSpec) exts(b *dagen.Built) ([]graphsync.ExtensionData, *cid.Set) {
	var out []graphsync.ExtensionData
	set := cid.NewSet()
	wrong := func() datamodel.Node { return basicnode.NewBool(true) }
	if r.Skip >= 0 || r.Malformed == "skip" {
		d := donotsendfirstblocks.EncodeDoNotSendFirstBlocks(int64(max(r.Skip, 0)))
		if r.Malformed == "skip" {
			d = wrong()
		}
		out = append(out, graphsync.ExtensionData{Name: graphsync.ExtensionsDoNotSendFirstBlocks, Data: d})
	}
	if r.HasCids || r.Malformed == "cids" {
		for _, i := range r.Cids {
			if i < len(b.Order) {
				set.Add(b.Order[i])
			}
		}
		d := cidset.EncodeCidSet(set)
		if r.Malformed == "cids" {
			d = wrong()
		}
		out = append(out, graphsync.ExtensionData{Name: graphsync.ExtensionDoNotSendCIDs, Data: d})
	}
	if r.DedupKey != "" || r.Malformed == "dedup" {
		var d datamodel.Node = basicnode.NewString(r.DedupKey)
		if r.Malformed == "dedup" {
			d = wrong()
		}
		out = append(out, graphsync.ExtensionData{Name: graphsync.ExtensionDeDupByKey, Data: d})
	}
	return out, set
}

func judge(c Case) *pbt.Verdict {
	v := &pbt.Verdict{}
	if !c.Base.Sel.WellFormed() {
		v.Skip = true
		return v
	}
	b, err := c.Base.DAG.Build()
	if err != nil {
		v.Skip = true
		return v
	}
	split := append(dagen.Split(nil), c.Base.Split...)
	for len(split) < len(b.Order) {
		split = append(split, 2)
	}
	_, respStore := b.Stores(split)
	sel := dagen.Canonical(c.Base.Sel.Node())
	ref := dagen.RefStore(b.Root, respStore, sel, 0)
	if ref.Err != nil {
		v.Skip = true
		return v
	}

	type got struct{ msgs []*sim.Envelope }
	results := make([]got, len(c.Reqs))
	ro := sim.Run(outerT, func(w *sim.World) {
		rs := w.AddInstance(scen.RespID, sim.NewStore(respStore, true))
		scen.ValidateAll(rs)
		w.AddScripted(scen.ReqID)
		for i, r := range c.Reqs {
			exts, _ := r.exts(b)
			req := gsmsg.NewRequest(reqID(i), b.Root, c.Base.Sel.Node(), graphsync.Priority(i), exts...)
			start := len(w.Net.Sent)
			if err := w.Net.Inject(scen.ReqID, scen.RespID, gsmsg.NewMessage(map[graphsync.RequestID]gsmsg.GraphSyncRequest{req.ID(): req}, nil, nil)); err != nil {
				panic(err)
			}
			w.Quiesce()
			for _, e := range w.Net.Sent[start:] {
				if e.From == scen.RespID {
					results[i].msgs = append(results[i].msgs, e)
				}
			}
		}
	})
	if ro.Panic != "" {
		return v.Failf("panic: %s", ro.Panic)
	}

	missing, repeated := false, false
	seenC := map[cid.Cid]bool{}
	for _, l := range ref.Loads {
		if !l.Present {
			missing = true
		}
		if seenC[l.Cid] {
			repeated = true
		}
		seenC[l.Cid] = true
	}
	anyExt := false
	for i, r := range c.Reqs {
		if r.Skip >= 0 || r.HasCids || r.DedupKey != "" {
			anyExt = true
		}
		if f := judgeOne(i, r, b, respStore, ref, results[i].msgs); f != "" {
			return v.Failf("request %d: %s", i, f)
		}
	}
	if missing {
		v.Label("missing-link")
	}
	if repeated {
		v.Label("repeated-link")
	}
	if anyExt {
		v.Label("extension")
	}
	if len(c.Reqs) == 2 {
		v.Label("two-sequential-requests")
	}
	v.NonTrivial = len(ref.Loads) >= 3 && (missing || repeated || anyExt)
	v.Note = fmt.Sprintf("sel=%s loads=%d", c.Base.Sel, len(ref.Loads))
	return v
}

func judgeOne(i int, r ReqSpec, b *dagen.Built, respStore map[cid.Cid][]byte, ref *dagen.Ref, msgs []*sim.Envelope) string {
	id := reqID(i)
	_, dns := r.exts(b)
	// collect this request's responses in send order
	type entry struct {
		c   cid.Cid
		a   graphsync.LinkAction
		msg int
	}
	var entries []entry
	var statuses []graphsync.ResponseStatusCode
	blocksPerMsg := []map[cid.Cid][]byte{}
	for mi, e := range msgs {
		bm := map[cid.Cid][]byte{}
		for _, blk := range e.Msg.Blocks() {
			bm[blk.Cid()] = blk.RawData()
		}
		blocksPerMsg = append(blocksPerMsg, bm)
		for _, rsp := range e.Msg.Responses() {
			if rsp.RequestID() != id {
				return fmt.Sprintf("response for unknown request id %s", rsp.RequestID())
			}
			rsp.Metadata().Iterate(func(c cid.Cid, a graphsync.LinkAction) { entries = append(entries, entry{c, a, mi}) })
			statuses = append(statuses, rsp.Status())
		}
	}
	if len(statuses) == 0 {
		return "no response at all"
	}
	terminal := 0
	for k, s := range statuses {
		if s.IsTerminal() {
			terminal++
			if k != len(statuses)-1 {
				return fmt.Sprintf("terminal status %s is not last (statuses %v)", s, statuses)
			}
		}
	}
	if terminal != 1 {
		return fmt.Sprintf("%d terminal statuses (statuses %v)", terminal, statuses)
	}
	final := statuses[len(statuses)-1]
	if r.Malformed != "" {
		if final != graphsync.RequestFailedUnknown {
			return fmt.Sprintf("malformed %s extension: final status %s, want RequestFailedUnknown", r.Malformed, final)
		}
		return ""
	}
	// root missing
	if len(ref.Loads) > 0 && !ref.Loads[0].Present {
		if final != graphsync.RequestFailedContentNotFound {
			return fmt.Sprintf("root block missing: final status %s, want RequestFailedContentNotFound", final)
		}
		return ""
	}
	// metadata mirrors the traversal
	if len(entries) != len(ref.Loads) {
		return fmt.Sprintf("%d metadata entries, traversal visits %d links", len(entries), len(ref.Loads))
	}
	anyMissing := false
	earlier := map[cid.Cid]bool{} // cid occurred earlier in this request's traversal (present)
	carried := map[cid.Cid]bool{}
	skip := r.Skip
	for k, l := range ref.Loads {
		e := entries[k]
		if !e.c.Equals(l.Cid) {
			return fmt.Sprintf("metadata entry %d is %s, traversal visits %s at %q", k, e.c, l.Cid, l.Path)
		}
		wantA := graphsync.LinkActionPresent
		if !l.Present {
			wantA = graphsync.LinkActionMissing
			anyMissing = true
		}
		if e.a != wantA {
			return fmt.Sprintf("metadata entry %d (%s at %q) marked %s, want %s", k, l.Cid, l.Path, e.a, wantA)
		}
		if !l.Present {
			continue
		}
		excluded := k+1 <= skip || dns.Has(l.Cid)
		data, inMsg := blocksPerMsg[e.msg][l.Cid]
		must := !excluded && !earlier[l.Cid]
		may := !excluded && !carried[l.Cid]
		switch {
		case must && !inMsg:
			return fmt.Sprintf("block %s (entry %d, path %q) not carried in the message holding its metadata", l.Cid, k, l.Path)
		case inMsg && !carried[l.Cid] && !may:
			return fmt.Sprintf("block %s (entry %d) carried although excluded (skip=%d, do-not-send=%v)", l.Cid, k, skip, dns.Has(l.Cid))
		}
		if inMsg && may && !carried[l.Cid] {
			if !bytes.Equal(data, respStore[l.Cid]) {
				return fmt.Sprintf("block %s carried with bytes differing from the store's", l.Cid)
			}
			carried[l.Cid] = true
		}
		earlier[l.Cid] = true
	}
	// no other block, none twice
	count := map[cid.Cid]int{}
	for _, bm := range blocksPerMsg {
		for c := range bm {
			count[c]++
			if !carried[c] {
				return fmt.Sprintf("block %s carried but not expected", c)
			}
		}
	}
	for c, n := range count {
		if n > 1 {
			return fmt.Sprintf("block %s carried in %d messages", c, n)
		}
	}
	want := graphsync.RequestCompletedFull
	if anyMissing {
		want = graphsync.RequestCompletedPartial
	}
	if final != want {
		return fmt.Sprintf("final status %s, want %s", final, want)
	}
	return ""
}

var def = pbt.Def[Case]{Name: "responder-mirror", Gen: gen, Run: judge}

func TestProp(t *testing.T) {
	outerT = t
	pbt.Check(t, run, def, 15000, 1000000)
}

func TestReplay(t *testing.T) {
	outerT = t
	pbt.Register(run, def)
	run.Replay(t)
}
