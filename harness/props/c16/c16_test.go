package c16

import (
	"fmt"
	"os"
	"strings"
	"testing"

	"pgregory.net/rapid"

	"verif/harness/comp/mqrig"
	"verif/harness/pbt"
)

var run = pbt.Init("C16")
var outerT *testing.T

func TestMain(m *testing.M) { pbt.Main(m, run) }

func gen(t *rapid.T) mqrig.Case {
	pat := rapid.IntRange(0, 7).Draw(t, "pattern")
	if f := os.Getenv("VERIF_PATTERN"); f != "" {
		pat = int(f[0] - '0')
	}
	switch pat {
	case 0, 1:
		return mqrig.GenWindDown(t)
	case 2, 3:
		return mqrig.GenFailBurst(t)
	case 4:
		return mqrig.GenBacklog(t)
	}
	return mqrig.Gen(t, run.Thorough())
}

func judge(c mqrig.Case) *pbt.Verdict {
	v := &pbt.Verdict{}
	o := mqrig.Run(outerT, c)
	if o.LateBuildClass() && run.Known("C16-built-after-queue-exit") {
		v.Excluded = "C16-built-after-queue-exit"
		return v
	}
	mqrig.Classify(v, c, o)
	v.NonTrivial = o.MultiMsgWithFault || o.ExtPresent || o.ShutdownWhileReserving
	if o.Panic != "" {
		return v.Failf("panic: %s", o.Panic)
	}
	for _, a := range o.Attachments {
		term := 0
		for _, e := range a.Events {
			switch e {
			case "sent", "error":
				term++
			case "queued":
				if term > 0 {
					return v.Failf("attachment #%d (peer %s, request %s): Queued reported after the terminal event: %v", a.Seq, a.Peer, a.Req, a.Events)
				}
			}
		}
		if term == 0 && scrubbedAfterError(o, a) {
			// discarded because another message of the same request failed: that failure was reported
			// to the request's party, and the code deliberately drops the rest of the request
			continue
		}
		if term == 0 {
			return v.Failf("attachment #%d (peer %s, request %s) was never told Sent or Error (events %v) although everything is quiescent and every gate is open", a.Seq, a.Peer, a.Req, a.Events)
		}
		if term > 1 {
			return v.Failf("attachment #%d (peer %s, request %s) got %d terminal reports: %v", a.Seq, a.Peer, a.Req, term, a.Events)
		}
	}
	v.Note = fmt.Sprintf("attachments=%d ops=%d %s", len(o.Attachments), len(c.Ops), strings.Join(v.Labels, ","))
	return v
}

func scrubbedAfterError(o *mqrig.Obs, a *mqrig.Attachment) bool {
	for _, b := range o.Attachments {
		if b != a && b.Peer == a.Peer && b.Req == a.Req {
			for _, e := range b.Events {
				if e == "error" {
					return true
				}
			}
		}
	}
	return false
}

var def = pbt.Def[mqrig.Case]{Name: "sent-or-failed-once", Gen: gen, Run: judge}

func TestProp(t *testing.T) {
	outerT = t
	pbt.Check(t, run, def, 8000, 500000)
}

func TestReplay(t *testing.T) {
	outerT = t
	pbt.Register(run, def)
	run.Replay(t)
}
