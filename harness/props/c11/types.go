package c11

import "github.com/ipld/go-ipld-prime/datamodel"

type nodeT = datamodel.Node
