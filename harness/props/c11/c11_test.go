package c11

import (
	"bytes"
	"fmt"
	"io"
	"testing"

	"github.com/ipfs/go-cid"
	"github.com/libp2p/go-libp2p/core/network"
	"github.com/libp2p/go-libp2p/core/peer"
	"github.com/libp2p/go-msgio"
	"pgregory.net/rapid"

	"github.com/ipfs/go-graphsync"
	"github.com/ipfs/go-graphsync/cidset"
	"github.com/ipfs/go-graphsync/dedupkey"
	"github.com/ipfs/go-graphsync/donotsendfirstblocks"
	gsmsg "github.com/ipfs/go-graphsync/message"
	gsmsgv2 "github.com/ipfs/go-graphsync/message/v2"

	"verif/harness/msggen"
	"verif/harness/pbt"
)

var run = pbt.Init("C11")

func TestMain(m *testing.M) { pbt.Main(m, run) }

type Case struct {
	Msgs []msggen.Msg `json:"msgs"` // a stream of 1-5 messages
}

func gen(t *rapid.T) Case {
	n := rapid.SampledFrom([]int{1, 1, 1, 2, 3, 5}).Draw(t, "nmsgs")
	var c Case
	for i := 0; i < n; i++ {
		c.Msgs = append(c.Msgs, msggen.GenMsg(t))
	}
	return c
}

var mh = gsmsgv2.NewMessageHandler()

func features(m msggen.Msg) int {
	f := map[string]bool{}
	for _, r := range m.Reqs {
		if r.Type == "n" {
			if r.Root == nil || (r.Sel == nil && r.SelAny == nil) {
				f["absent-optional"] = true
			}
			if r.Pri == 0 {
				f["zero-priority"] = true
			}
			if r.Root != nil && (r.Root.V == 0 || r.Root.Mh != 0x12) {
				f["nondefault-cid"] = true
			}
			if r.Root != nil && r.Root.Mh == 0 {
				f["identity-cid"] = true
			}
		}
		for _, e := range r.Exts {
			if e.Nil || (e.Val != nil && (e.Val.K == "null" || e.Val.K == "map" || e.Val.K == "list")) {
				f["null-or-nested-ext"] = true
			}
		}
	}
	for _, r := range m.Resps {
		for i := range r.Meta {
			if i > 0 && r.Meta[i].C == r.Meta[i-1].C {
				f["repeated-metadata-link"] = true
			}
		}
		if len(r.Meta) == 0 {
			f["absent-optional"] = true
		}
		for _, e := range r.Exts {
			if e.Nil || (e.Val != nil && (e.Val.K == "null" || e.Val.K == "map" || e.Val.K == "list")) {
				f["null-or-nested-ext"] = true
			}
		}
	}
	for _, b := range m.Blocks {
		if b.C.V == 0 || b.C.Mh != 0x12 || b.C.Len != 32 {
			f["nondefault-cid"] = true
		}
		if b.C.Mh == 0 {
			f["identity-cid"] = true
		}
	}
	return len(f)
}

func judge(c Case) *pbt.Verdict {
	v := &pbt.Verdict{}
	var built []gsmsg.GraphSyncMessage
	feat := 0
	for _, m := range c.Msgs {
		b, err := m.Build()
		if err != nil {
			v.Skip = true // a hash function the registry cannot compute: not expressible
			return v
		}
		built = append(built, b)
		if f := features(m); f > feat {
			feat = f
		}
	}
	if len(c.Msgs) > 1 {
		feat++
		v.Label("stream>1")
	}
	v.NonTrivial = feat >= 2
	// single-message round trip
	for i, m := range built {
		var buf bytes.Buffer
		if err := mh.ToNet(peer.ID("p"), m, &buf); err != nil {
			return v.Failf("message %d: ToNet failed on a well-formed message: %v", i, err)
		}
		dec, err := mh.FromNet(peer.ID("p"), bytes.NewReader(buf.Bytes()))
		if err != nil {
			return v.Failf("message %d: FromNet(ToNet(m)) failed: %v", i, err)
		}
		if d := msggen.Diff(m, dec); d != "" {
			return v.Failf("message %d does not round-trip: %s", i, d)
		}
		if m.Empty() != dec.Empty() {
			return v.Failf("message %d: Empty() %v became %v", i, m.Empty(), dec.Empty())
		}
	}
	// stream: all messages in one buffer, read back one by one through one msgio reader
	var stream bytes.Buffer
	for _, m := range built {
		if err := mh.ToNet(peer.ID("p"), m, &stream); err != nil {
			return v.Failf("stream ToNet: %v", err)
		}
	}
	rd := msgio.NewVarintReaderSize(&stream, network.MessageSizeMax)
	for i, m := range built {
		dec, err := mh.FromMsgReader(peer.ID("p"), rd)
		if err != nil {
			return v.Failf("stream message %d/%d failed to decode: %v", i, len(built), err)
		}
		if d := msggen.Diff(m, dec); d != "" {
			return v.Failf("stream message %d differs: %s", i, d)
		}
	}
	if _, err := mh.FromMsgReader(peer.ID("p"), rd); err != io.EOF {
		return v.Failf("after the last message the stream yields %v, want io.EOF", err)
	}
	// the same stream read with one FromNet call per message (FromNet takes any io.Reader and must
	// not consume more than the message it returns); a plain reader without ReadByte / buffering
	var stream2 bytes.Buffer
	for _, m := range built {
		_ = mh.ToNet(peer.ID("p"), m, &stream2)
	}
	plain := onlyReader{&stream2}
	for i, m := range built {
		dec, err := mh.FromNet(peer.ID("p"), plain)
		if err != nil {
			return v.Failf("FromNet call %d of %d on one stream failed: %v", i+1, len(built), err)
		}
		if d := msggen.Diff(m, dec); d != "" {
			return v.Failf("FromNet call %d on one stream returned a different message: %s", i+1, d)
		}
	}
	if _, err := mh.FromNet(peer.ID("p"), plain); err != io.EOF {
		return v.Failf("FromNet after the last message of the stream yields %v, want io.EOF", err)
	}
	return v
}

type onlyReader struct{ r io.Reader }

func (o onlyReader) Read(p []byte) (int, error) { return o.r.Read(p) }

// extension payload codecs
type ExtCase struct {
	Cids []msggen.CidSpec `json:"cids"`
	Key  string           `json:"key"`
	Skip int64            `json:"skip"`
}

func genExt(t *rapid.T) ExtCase {
	var c ExtCase
	n := rapid.IntRange(0, 6).Draw(t, "ncids")
	for i := 0; i < n; i++ {
		c.Cids = append(c.Cids, msggen.GenCid(t))
	}
	c.Key = rapid.SampledFrom([]string{"", "k", "a longer key", "ünï", "\x00"}).Draw(t, "key")
	c.Skip = rapid.SampledFrom([]int64{0, 1, 2, 100, 1 << 40, 1<<63 - 1, -1}).Draw(t, "skip")
	return c
}

func judgeExt(c ExtCase) *pbt.Verdict {
	v := &pbt.Verdict{NonTrivial: len(c.Cids) >= 2}
	set := cid.NewSet()
	for i := range c.Cids {
		cc, err := c.Cids[i].Cid()
		if err != nil {
			v.Skip = true
			return v
		}
		set.Add(cc)
	}
	keyNode, err := dedupkey.EncodeDedupKey(c.Key)
	if err != nil {
		return v.Failf("EncodeDedupKey: %v", err)
	}
	exts := []graphsync.ExtensionData{
		{Name: graphsync.ExtensionDoNotSendCIDs, Data: cidset.EncodeCidSet(set)},
		{Name: graphsync.ExtensionDeDupByKey, Data: keyNode},
		{Name: graphsync.ExtensionsDoNotSendFirstBlocks, Data: donotsendfirstblocks.EncodeDoNotSendFirstBlocks(c.Skip)},
	}
	check := func(where string, get func(graphsync.ExtensionName) (nodeT, bool)) string {
		d, ok := get(graphsync.ExtensionDoNotSendCIDs)
		if !ok {
			return where + ": do-not-send-cids lost"
		}
		got, err := cidset.DecodeCidSet(d)
		if err != nil {
			return fmt.Sprintf("%s: DecodeCidSet: %v", where, err)
		}
		if got.Len() != set.Len() {
			return fmt.Sprintf("%s: cid set has %d members, want %d", where, got.Len(), set.Len())
		}
		bad := ""
		_ = set.ForEach(func(x cid.Cid) error {
			if !got.Has(x) {
				bad = fmt.Sprintf("%s: cid %s lost", where, x)
			}
			return nil
		})
		if bad != "" {
			return bad
		}
		d, ok = get(graphsync.ExtensionDeDupByKey)
		if !ok {
			return where + ": dedup-by-key lost"
		}
		k, err := dedupkey.DecodeDedupKey(d)
		if err != nil || k != c.Key {
			return fmt.Sprintf("%s: dedup key %q (err %v), want %q", where, k, err, c.Key)
		}
		d, ok = get(graphsync.ExtensionsDoNotSendFirstBlocks)
		if !ok {
			return where + ": do-not-send-first-blocks lost"
		}
		n, err := donotsendfirstblocks.DecodeDoNotSendFirstBlocks(d)
		if err != nil || n != c.Skip {
			return fmt.Sprintf("%s: skip count %d (err %v), want %d", where, n, err, c.Skip)
		}
		return ""
	}
	byName := map[graphsync.ExtensionName]nodeT{}
	for _, e := range exts {
		byName[e.Name] = e.Data
	}
	if f := check("direct", func(n graphsync.ExtensionName) (nodeT, bool) { x, ok := byName[n]; return x, ok }); f != "" {
		return v.Failf("%s", f)
	}
	id, _ := graphsync.ParseRequestID([]byte("c11-request-id-0"))
	root, _ := (&msggen.CidSpec{V: 1, Codec: cid.Raw, Mh: 0x12, Len: 32, Seed: "r"}).Cid()
	req := gsmsg.NewRequest(id, root, nil, 0, exts...)
	var buf bytes.Buffer
	if err := mh.ToNet(peer.ID("p"), gsmsg.NewMessage(map[graphsync.RequestID]gsmsg.GraphSyncRequest{id: req}, nil, nil), &buf); err != nil {
		return v.Failf("ToNet: %v", err)
	}
	dec, err := mh.FromNet(peer.ID("p"), &buf)
	if err != nil {
		return v.Failf("FromNet: %v", err)
	}
	if len(dec.Requests()) != 1 {
		return v.Failf("request lost")
	}
	r := dec.Requests()[0]
	if f := check("on the wire", func(n graphsync.ExtensionName) (nodeT, bool) { return r.Extension(n) }); f != "" {
		return v.Failf("%s", f)
	}
	return v
}

var def = pbt.Def[Case]{Name: "message-roundtrip", Gen: gen, Run: judge}
var defExt = pbt.Def[ExtCase]{Name: "extension-codecs", Gen: genExt, Run: judgeExt}

func TestProp(t *testing.T) {
	pbt.Check(t, run, def, 8000, 1000000)
	pbt.Check(t, run, defExt, 3000, 300000)
}

func TestReplay(t *testing.T) {
	pbt.Register(run, def)
	pbt.Register(run, defExt)
	run.Replay(t)
}
