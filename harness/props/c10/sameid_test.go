package c10

import (
	"errors"
	"fmt"
	"os"
	"runtime"
	"sort"
	"strings"
	"sync/atomic"
	"testing"

	"github.com/ipfs/go-cid"
	"github.com/ipld/go-ipld-prime/node/basicnode"
	"github.com/libp2p/go-libp2p/core/peer"
	"pgregory.net/rapid"

	"github.com/ipfs/go-graphsync"
	gsimpl "github.com/ipfs/go-graphsync/impl"
	gsmsg "github.com/ipfs/go-graphsync/message"

	"verif/harness/dagen"
	"verif/harness/pbt"
	"verif/harness/scen"
	"verif/harness/sim"
)

// Second scenario: both peers act. Peer A's request R lives through its own pause / resume / cancel, with its
// traversal held in a block hook or its messages held in the network, while peer B sends a request under the
// SAME id (and possibly cancels it). Whatever A does to its own request must leave B's response alone, and
// vice versa: each peer's transcript and listener events equal those of the run in which the other peer does
// nothing -- or, for B, are empty (the responder ignores a request whose id is in use by another peer).

type SCase struct {
	DAG       dagen.DAG  `json:"dag"`
	Sel       *dagen.Sel `json:"sel"`
	PauseAt   int        `json:"pause_at"`   // A's response is paused by the block hook at this block index (0 = never)
	StallAt   int        `json:"stall_at"`   // A's traversal is held inside the block hook at this block index until "release"
	SendStall []int      `json:"send_stall"` // indices of the responder's sends to A that stall until "unstall"
	SendFail  []int      `json:"send_fail"`  // indices of the responder's sends to A that fail
	BStall    []int      `json:"b_stall"`    // indices of the responder's sends to B that stall until "unstall"
	BHoldAt   int        `json:"b_hold_at"`  // B's traversal is held inside the block hook at this block index until "release" (0 = never)
	BRoot     int        `json:"b_root"`
	BWhole    bool       `json:"b_whole"` // B asks for the whole DAG below its root (else just the root node)
	Ops       []string   `json:"ops"`     // acancel aunpause anew bnew relbnew bcancel release unstall wait adisc
	Retries   int        `json:"retries"`
}

func genSame(t *rapid.T) SCase {
	c := SCase{DAG: dagen.GenDAG(t, dagen.GenOpts{MaxBlocks: run.N(8, 16), MaxDepth: 2}), Sel: dagen.RecAll(-1), Retries: rapid.IntRange(1, 2).Draw(t, "retries")}
	if rapid.IntRange(0, 1).Draw(t, "haspause") == 0 {
		c.PauseAt = rapid.IntRange(1, 3).Draw(t, "pauseat")
	}
	if rapid.IntRange(0, 1).Draw(t, "hasstall") == 0 {
		c.StallAt = rapid.IntRange(1, 4).Draw(t, "stallat")
	}
	if rapid.IntRange(0, 1).Draw(t, "hassendstall") == 0 {
		c.SendStall = rapid.SliceOfNDistinct(rapid.IntRange(0, 4), 1, 2, rapid.ID[int]).Draw(t, "sendstall")
	}
	if rapid.IntRange(0, 3).Draw(t, "hassendfail") == 0 {
		c.SendFail = rapid.SliceOfNDistinct(rapid.IntRange(0, 5), 1, 2, rapid.ID[int]).Draw(t, "sendfail")
	}
	if rapid.IntRange(0, 2).Draw(t, "hasbstall") == 0 {
		c.BStall = []int{rapid.IntRange(0, 2).Draw(t, "bstall")}
	}
	if rapid.IntRange(0, 3).Draw(t, "hasbhold") == 0 {
		c.BHoldAt = rapid.IntRange(1, 3).Draw(t, "bholdat")
	}
	c.BRoot = rapid.IntRange(0, 20).Draw(t, "broot")
	c.BWhole = rapid.Bool().Draw(t, "bwhole")
	n := rapid.IntRange(2, 8).Draw(t, "nops")
	switch rapid.IntRange(0, 8).Draw(t, "pattern") {
	case 0:
		// A's response has run to its end, its messages are still held in the network; A cancels; B arrives
		c.PauseAt, c.StallAt = 0, 0
		c.SendStall = []int{0, rapid.IntRange(1, 3).Draw(t, "second")}
		c.Ops = append(c.Ops, "acancel", "bnew")
	case 2:
		// A's response is paused with its first message still held in the network; A cancels; B arrives and
		// is being served when A's connection breaks and the held message fails
		c.PauseAt, c.StallAt, c.SendStall, c.SendFail = 1, 0, []int{0}, nil
		c.BHoldAt, c.BWhole, c.BRoot = rapid.IntRange(1, 2).Draw(t, "bh"), true, len(c.DAG.Blocks)-1 // (the DAG's root is its last block)
		c.Ops = append(c.Ops, "acancel", "bnew", "adisc", "release")
	case 3:
		// A's traversal is held in a hook; A cancels and sends the request again (a resume); the hook is
		// released and B's request arrives right behind the end of A's first task
		c.PauseAt, c.SendStall, c.SendFail = 0, nil, nil
		c.StallAt = rapid.IntRange(1, 3).Draw(t, "st")
		c.Ops = append(c.Ops, "acancel", "anew", rapid.SampledFrom([]string{"relbnew", "crelbnew", "crelbnew"}).Draw(t, "rel"), "wait")
	case 1:
		// A's response was paused and resumed, the resumed traversal is held in a hook; A cancels; B arrives
		c.PauseAt = rapid.IntRange(1, 2).Draw(t, "p")
		c.StallAt = c.PauseAt + rapid.IntRange(1, 2).Draw(t, "d")
		c.Ops = append(c.Ops, "aunpause", "acancel", "bnew")
		if rapid.Bool().Draw(t, "bheld") {
			c.BStall = []int{0}
		}
	}
	for i := 0; i < n; i++ {
		c.Ops = append(c.Ops, rapid.SampledFrom([]string{"acancel", "aunpause", "bnew", "bnew", "bcancel", "release", "unstall", "wait", "adisc", "relbnew", "crelbnew"}).Draw(t, "op"))
	}
	return c
}

var peerC = peer.ID("c10-third-requestor")

type sameRes struct {
	a, b       string // transcripts
	aEv, bEv   string
	aSt, bSt   string
	bAccepted  bool
	bWhileLive string // state of A's response when B's request arrived ("" = none)
	panicS     string
}

func transcriptFor(w *sim.World, to peer.ID) string {
	type tr struct {
		md       []string
		statuses []string
	}
	trs := map[graphsync.RequestID]*tr{}
	blocks := map[string]bool{}
	for _, e := range w.Net.Sent {
		if e.From != scen.RespID || e.To != to {
			continue
		}
		for _, rsp := range e.Msg.Responses() {
			t := trs[rsp.RequestID()]
			if t == nil {
				t = &tr{}
				trs[rsp.RequestID()] = t
			}
			rsp.Metadata().Iterate(func(cc cid.Cid, a graphsync.LinkAction) { t.md = append(t.md, cc.String()+":"+string(a)) })
			if rsp.Status() != graphsync.PartialResponse {
				t.statuses = append(t.statuses, rsp.Status().String())
			}
		}
		for _, blk := range e.Msg.Blocks() {
			blocks[blk.Cid().String()] = true
		}
	}
	var sb strings.Builder
	for id, t := range trs {
		fmt.Fprintf(&sb, "%s md=%v statuses=%v\n", id, t.md, t.statuses)
	}
	var bl []string
	for k := range blocks {
		bl = append(bl, k)
	}
	sort.Strings(bl)
	if len(trs) > 0 {
		fmt.Fprintf(&sb, "blocks=%v", bl)
	}
	return sb.String()
}

func runSame(c SCase, b *dagen.Built, withA, withB bool) sameRes {
	var r sameRes
	var aEv, bEv []string
	id := reqID(0)
	ro := sim.Run(outerT, func(w *sim.World) {
		store := sim.NewStore(b.Data, true)
		stall := make(chan struct{})
		released := false
		stallSet, failSet := map[int]bool{}, map[int]bool{}
		for _, i := range c.SendStall {
			stallSet[i] = true
		}
		for _, i := range c.SendFail {
			failSet[i] = true
		}
		sendN, sendB := 0, 0
		bStall := map[int]bool{}
		for _, i := range c.BStall {
			bStall[i] = true
		}
		w.Net.SendPolicy = func(from, to peer.ID, n int, m gsmsg.GraphSyncMessage) sim.SendOutcome {
			if from == scen.RespID && to == peerB {
				k := sendB
				sendB++
				if bStall[k] {
					return sim.SendBlock
				}
				return sim.SendOK
			}
			if from != scen.RespID || to != peerA {
				return sim.SendOK
			}
			k := sendN
			sendN++
			if failSet[k] {
				return sim.SendFail
			}
			if stallSet[k] {
				return sim.SendBlock
			}
			return sim.SendOK
		}
		rs := w.AddInstance(scen.RespID, store, gsimpl.MessageSendRetries(c.Retries))
		scen.ValidateAll(rs)
		w.AddScripted(peerA)
		w.AddScripted(peerB)
		w.AddScripted(peerC)
		rs.GS.RegisterOutgoingBlockHook(func(p peer.ID, rd graphsync.RequestData, bd graphsync.BlockData, ha graphsync.OutgoingBlockHookActions) {
			if p == peerB && rd.ID() == id && c.BHoldAt > 0 && bd.Index() == int64(c.BHoldAt) && !released {
				<-stall
			}
			if p != peerA || rd.ID() != id {
				return
			}
			if c.StallAt > 0 && bd.Index() == int64(c.StallAt) && !released {
				<-stall
			}
			if c.PauseAt > 0 && bd.Index() == int64(c.PauseAt) {
				ha.PauseResponse()
			}
		})
		rs.GS.RegisterRequestUpdatedHook(func(p peer.ID, rd graphsync.RequestData, upd graphsync.RequestData, ha graphsync.RequestUpdatedHookActions) {
			if _, ok := upd.Extension(extUnpause); ok {
				ha.UnpauseResponse()
			}
		})
		note := func(p peer.ID, s string) {
			if p == peerA {
				aEv = append(aEv, s)
			} else if p == peerB {
				bEv = append(bEv, s)
			}
		}
		rs.GS.RegisterCompletedResponseListener(func(p peer.ID, rd graphsync.RequestData, st graphsync.ResponseStatusCode) {
			note(p, fmt.Sprintf("completed %s root=%s", st, rd.Root()))
		})
		rs.GS.RegisterRequestorCancelledListener(func(p peer.ID, rd graphsync.RequestData) {
			note(p, fmt.Sprintf("cancelled root=%s", rd.Root()))
		})
		rs.GS.RegisterNetworkErrorListener(func(p peer.ID, rd graphsync.RequestData, err error) {
			note(p, fmt.Sprintf("neterr root=%s", rd.Root()))
		})
		send := func(from peer.ID, q gsmsg.GraphSyncRequest) {
			w.Net.Connect(from, scen.RespID)
			if err := w.Net.Inject(from, scen.RespID, gsmsg.NewMessage(map[graphsync.RequestID]gsmsg.GraphSyncRequest{q.ID(): q}, nil, nil)); err != nil {
				panic(err)
			}
			w.Net.Deliver(from, scen.RespID)
			w.Quiesce()
		}
		if withA {
			send(peerA, gsmsg.NewRequest(id, b.Root, c.Sel.Node(), 0))
		}
		bSent, cSent := false, false
		var inCHook atomic.Bool
		cID := reqID(7)
		rs.GS.RegisterIncomingRequestHook(func(p peer.ID, rd graphsync.RequestData, ha graphsync.IncomingRequestHookActions) {
			if p == peerC {
				inCHook.Store(true)
				for k := 0; k < 1500; k++ {
					runtime.Gosched()
				}
			}
		})
		for _, op := range c.Ops {
			switch op {
			case "acancel":
				if withA {
					send(peerA, gsmsg.NewCancelRequest(id))
				}
			case "aunpause":
				if withA {
					send(peerA, gsmsg.NewUpdateRequest(id, graphsync.ExtensionData{Name: extUnpause, Data: basicnode.NewString("go")}))
				}
			case "anew":
				// A sends its request again under the same id (what a requestor does when it resumes). Only the
				// focused history uses it, before B has sent anything: a request sent again while the OTHER peer
				// holds the id is ignored by design, which is not a difference to report
				if withA {
					send(peerA, gsmsg.NewRequest(id, b.Root, c.Sel.Node(), 0))
				}
			case "crelbnew":
				// as relbnew, with the responder's loop kept busy meanwhile by a third peer's request whose
				// request hook is slow (it yields): the end of A's task and B's request queue up behind it
				if !cSent {
					cSent = true
					w.Net.Connect(peerC, scen.RespID)
					if err := w.Net.Inject(peerC, scen.RespID, gsmsg.NewMessage(map[graphsync.RequestID]gsmsg.GraphSyncRequest{cID: gsmsg.NewRequest(cID, b.Root, (&dagen.Sel{K: "match"}).Node(), 0)}, nil, nil)); err != nil {
						panic(err)
					}
					w.Net.Deliver(peerC, scen.RespID)
					for k := 0; k < 400 && !inCHook.Load(); k++ {
						runtime.Gosched() // until the responder's loop sits in the slow hook
					}
				}
				fallthrough
			case "relbnew":
				// the hook holding A's traversal is released and B's request arrives right behind the end of
				// A's task, without the responder coming to rest in between
				if !released {
					released = true
					close(stall)
				}
				for k := 0; k < 150; k++ {
					runtime.Gosched()
				}
				fallthrough
			case "bnew":
				if withB && !bSent {
					bSent = true
					if op == "bnew" {
						if st, live := rs.Impl.PeerState(peerA).IncomingState.RequestStates[id]; live {
							r.bWhileLive = st.String()
						}
					} else {
						// (asking for the peer state would wait for the responder's loop and undo the race)
						r.bWhileLive = "winding down"
					}
					sel := (&dagen.Sel{K: "match"}).Node()
					if c.BWhole {
						sel = c.Sel.Node()
					}
					send(peerB, gsmsg.NewRequest(id, b.Cids[c.BRoot%len(b.Cids)], sel, 0))
					if _, ok := rs.Impl.PeerState(peerB).IncomingState.RequestStates[id]; ok {
						r.bAccepted = true
					}
				}
			case "bcancel":
				if withB && bSent {
					send(peerB, gsmsg.NewCancelRequest(id))
				}
			case "release":
				if !released {
					released = true
					close(stall)
				}
				w.Quiesce()
			case "adisc":
				// A's connection breaks: whatever is stalled on it fails (in every run, whoever else is there)
				w.Net.Disconnect(scen.RespID, peerA)
				w.Quiesce()
			case "unstall":
				w.Net.ReleaseBlocked()
				w.Quiesce()
			case "wait":
				w.Quiesce()
			}
			if op == "relbnew" || op == "crelbnew" {
				w.Quiesce() // whoever takes part, the step ends at rest, as every other step does
			}
		}
		if !released {
			released = true
			close(stall)
		}
		for k := 0; k < 3; k++ {
			w.Net.ReleaseBlocked()
			w.Quiesce()
		}
		// every paused response is eventually unpaused
		if st, ok := rs.Impl.PeerState(peerA).IncomingState.RequestStates[id]; ok && st == graphsync.Paused {
			send(peerA, gsmsg.NewUpdateRequest(id, graphsync.ExtensionData{Name: extUnpause, Data: basicnode.NewString("go")}))
			w.Net.ReleaseBlocked()
			w.Quiesce()
		}
		for _, l := range w.Net.PendingLinks() {
			for w.Net.Deliver(l[0], l[1]) != nil {
			}
		}
		r.a, r.b = transcriptFor(w, peerA), transcriptFor(w, peerB)
		sort.Strings(aEv)
		sort.Strings(bEv)
		r.aEv, r.bEv = strings.Join(aEv, "; "), strings.Join(bEv, "; ")
		st := func(p peer.ID) string {
			var ss []string
			for id, st := range rs.Impl.PeerState(p).IncomingState.RequestStates {
				ss = append(ss, id.String()+"="+st.String())
			}
			sort.Strings(ss)
			return strings.Join(ss, ",")
		}
		r.aSt, r.bSt = st(peerA), st(peerB)
	})
	r.panicS = ro.Panic
	return r
}

func judgeSame(c SCase) *pbt.Verdict {
	v := &pbt.Verdict{}
	b, err := c.DAG.Build()
	if err != nil {
		v.Skip = true
		return v
	}
	hasB := false
	for _, op := range c.Ops {
		if op == "bnew" || op == "relbnew" || op == "crelbnew" {
			hasB = true
		}
	}
	if !hasB {
		v.Skip = true
		return v
	}
	full := runSame(c, b, true, true)
	aOnly := runSame(c, b, true, false)
	bOnly := runSame(c, b, false, true)
	if os.Getenv("VERIF_TRACE") != "" {
		fmt.Printf("FULL  a=%q\n      aEv=%q b=%q bEv=%q bAccepted=%v bWhileLive=%q\nAONLY a=%q\n      aEv=%q\nBONLY b=%q\n", full.a, full.aEv, full.b, full.bEv, full.bAccepted, full.bWhileLive, aOnly.a, aOnly.aEv, bOnly.b)
	}
	for _, r := range []sameRes{full, aOnly, bOnly} {
		if r.panicS != "" {
			return v.Failf("panic: %s", r.panicS)
		}
	}
	if full.bWhileLive != "" {
		v.Label("B-arrives-while-A-is-" + strings.ReplaceAll(full.bWhileLive, " ", "-"))
	} else {
		v.Label("B-arrives-when-A-holds-no-entry")
	}
	if full.bAccepted {
		v.Label("B-accepted")
	}
	acted := false
	for _, op := range c.Ops {
		if op == "acancel" {
			acted = true
		}
	}
	if acted {
		v.Label("A-cancels-its-own-request")
	}
	v.NonTrivial = acted && (full.bWhileLive != "" || full.bAccepted)
	// A's own faults (a failing send, its connection breaking) cut A's response at a point that depends on
	// how the responder happened to batch blocks into messages: not comparable between two runs. What they
	// must never do is reach B, which is judged below in every case.
	aFaulty := len(c.SendFail) > 0
	for _, op := range c.Ops {
		if op == "adisc" {
			aFaulty = true
		}
	}
	if aFaulty {
		v.Label("A-has-network-faults")
	}
	// A cancelling and sending its request again while its first task is still held: whether that task
	// notices the cancel or runs to its end first is decided inside one step, so the first run's part of
	// the transcript is not comparable between two runs; what is comparable is how A's exchange ends
	hasAnew := false
	for _, op := range c.Ops {
		if op == "anew" {
			hasAnew = true
		}
	}
	if hasAnew && !aFaulty {
		v.Label("A-sends-its-request-again")
		if lastLine(full.a) != lastLine(aOnly.a) || lastStatus(full.a) != lastStatus(aOnly.a) {
			return v.Failf("peer A cancels and sends its request again: without B the exchange ends with %q and blocks %s; with B using the same id it ends with %q and blocks %s", lastStatus(aOnly.a), lastLine(aOnly.a), lastStatus(full.a), lastLine(full.a))
		}
		aFaulty = true // (the sequence comparisons below do not apply)
	}
	if !aFaulty && full.a != aOnly.a {
		return v.Failf("what the responder sent to peer A differs when peer B uses the same request id:\n--- without B ---\n%s\n--- with B ---\n%s", aOnly.a, full.a)
	}
	if !aFaulty && full.aEv != aOnly.aEv {
		return v.Failf("listener events for peer A differ: without B [%s], with B [%s]", aOnly.aEv, full.aEv)
	}
	if !aFaulty && full.aSt != aOnly.aSt {
		return v.Failf("PeerState(A) differs at the end: without B [%s], with B [%s]", aOnly.aSt, full.aSt)
	}
	ignored := full.b == "" && full.bEv == "" && full.bSt == ""
	if !ignored {
		if full.b != bOnly.b {
			return v.Failf("what the responder sent to peer B (whose request it took) differs from what it sends B when A is absent:\n--- without A ---\n%s\n--- with A ---\n%s", bOnly.b, full.b)
		}
		if full.bEv != bOnly.bEv {
			return v.Failf("listener events for peer B differ: without A [%s], with A [%s]", bOnly.bEv, full.bEv)
		}
		if full.bSt != bOnly.bSt {
			return v.Failf("PeerState(B) differs at the end: without A [%s], with A [%s]", bOnly.bSt, full.bSt)
		}
	} else {
		v.Label("B-ignored")
	}
	return v
}

var _ = errors.New

var defSame = pbt.Def[SCase]{Name: "same-id-both-peers-act", Gen: genSame, Run: judgeSame}

func TestPropSameID(t *testing.T) {
	outerT = t
	pbt.Check(t, run, defSame, 4000, 200000)
}

func lastLine(t string) string {
	l := strings.Split(t, "\n")
	return l[len(l)-1]
}

// lastStatus is the last non-partial status in a transcript rendered by transcriptFor.
func lastStatus(t string) string {
	i := strings.LastIndex(t, "statuses=[")
	if i < 0 {
		return ""
	}
	rest := t[i+len("statuses=["):]
	j := strings.Index(rest, "]")
	if j < 0 {
		return ""
	}
	f := strings.Fields(rest[:j])
	if len(f) == 0 {
		return ""
	}
	return f[len(f)-1]
}
