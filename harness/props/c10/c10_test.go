package c10

import (
	"errors"
	"fmt"
	"sort"
	"strings"
	"testing"

	"github.com/ipfs/go-cid"
	"github.com/ipld/go-ipld-prime/datamodel"
	"github.com/ipld/go-ipld-prime/node/basicnode"
	"github.com/libp2p/go-libp2p/core/peer"
	"pgregory.net/rapid"

	"github.com/ipfs/go-graphsync"
	gsimpl "github.com/ipfs/go-graphsync/impl"
	gsmsg "github.com/ipfs/go-graphsync/message"

	"verif/harness/dagen"
	"verif/harness/pbt"
	"verif/harness/scen"
	"verif/harness/sim"
)

var run = pbt.Init("C10")
var outerT *testing.T

func TestMain(m *testing.M) { pbt.Main(m, run) }

type Intrusion struct {
	Phase int    `json:"phase"` // 0: after A's request is in progress (held), 1: after A released it, 2: after it finished
	Kind  string `json:"kind"`  // cancel update new
	Ext   string `json:"ext"`   // update: extension name carried
	Root  int    `json:"root"`  // new: which block of the DAG is the root
	Req   int    `json:"req"`   // which of A's requests is targeted
}

type Case struct {
	DAG     dagen.DAG   `json:"dag"`
	Sel     *dagen.Sel  `json:"sel"`
	Hold    string      `json:"hold"`     // none pause gate
	HoldAt  int         `json:"hold_at"`  // block index (1-based) at which the response is held
	TwoReqs bool        `json:"two_reqs"` // A also has a second, unheld request
	Workers int         `json:"workers"`  // MaxInProgressIncomingRequests (0 = default): with 1 and a held first request the second one stays queued
	Intr    []Intrusion `json:"intrusions"`
}

const (
	extUnpause = "test/unpause"
	extError   = "trigger/error"
)

func gen(t *rapid.T) Case {
	c := Case{DAG: dagen.GenDAG(t, dagen.GenOpts{MaxBlocks: run.N(10, 20), MaxDepth: 2}), Sel: dagen.RecAll(int64(rapid.SampledFrom([]int{-1, 3, 10}).Draw(t, "lim")))}
	c.Hold = rapid.SampledFrom([]string{"pause", "pause", "gate", "gate", "none"}).Draw(t, "hold")
	c.HoldAt = rapid.IntRange(1, 4).Draw(t, "holdat")
	c.TwoReqs = rapid.IntRange(0, 2).Draw(t, "two") == 0
	if rapid.IntRange(0, 2).Draw(t, "oneworker") == 0 {
		c.Workers = 1
		c.TwoReqs = true
	}
	n := rapid.IntRange(1, 3).Draw(t, "nintr")
	for i := 0; i < n; i++ {
		c.Intr = append(c.Intr, Intrusion{
			Phase: rapid.SampledFrom([]int{0, 0, 0, 1, 2}).Draw(t, "phase"),
			Kind:  rapid.SampledFrom([]string{"cancel", "update", "new"}).Draw(t, "kind"),
			Ext:   rapid.SampledFrom([]string{extUnpause, extError, "other/ext"}).Draw(t, "ext"),
			Root:  rapid.IntRange(0, 20).Draw(t, "root"),
			Req:   rapid.IntRange(0, 1).Draw(t, "req"),
		})
	}
	return c
}

var (
	peerA = scen.ReqID
	peerB = scen.ThirdID
)

func reqID(i int) graphsync.RequestID {
	b := []byte("c10-request-id-0")
	b[15] = byte('0' + i)
	id, _ := graphsync.ParseRequestID(b)
	return id
}

type result struct {
	transcript string // A's normalised per-request transcript
	events     string // listener events for peer A
	state      string // PeerState(A) at the end
	liveAtIntr int
	statesHit  []string
	panicS     string
}

func one(c Case, b *dagen.Built, withIntruder bool) result {
	var r result
	var events []string
	ro := sim.Run(outerT, func(w *sim.World) {
		store := sim.NewStore(b.Data, true)
		gate := make(chan struct{})
		gateOpen := false
		reads := 0
		if c.Hold == "gate" {
			store.ReadHook = func(cc cid.Cid, _ datamodel.Path) error {
				reads++
				if reads == c.HoldAt && !gateOpen {
					<-gate
				}
				return nil
			}
		}
		var iopts []gsimpl.Option
		if c.Workers > 0 {
			iopts = append(iopts, gsimpl.MaxInProgressIncomingRequests(uint64(c.Workers)))
		}
		rs := w.AddInstance(scen.RespID, store, iopts...)
		scen.ValidateAll(rs)
		w.AddScripted(peerA)
		w.AddScripted(peerB)
		held := reqID(0)
		rs.GS.RegisterOutgoingBlockHook(func(p peer.ID, rd graphsync.RequestData, bd graphsync.BlockData, ha graphsync.OutgoingBlockHookActions) {
			if c.Hold == "pause" && p == peerA && rd.ID() == held && bd.Index() == int64(c.HoldAt) {
				ha.PauseResponse()
			}
		})
		rs.GS.RegisterRequestUpdatedHook(func(p peer.ID, rd graphsync.RequestData, upd graphsync.RequestData, ha graphsync.RequestUpdatedHookActions) {
			if _, ok := upd.Extension(extUnpause); ok {
				ha.UnpauseResponse()
			}
			if _, ok := upd.Extension(extError); ok {
				ha.TerminateWithError(errors.New("update hook error triggered"))
			}
		})
		rs.GS.RegisterCompletedResponseListener(func(p peer.ID, rd graphsync.RequestData, st graphsync.ResponseStatusCode) {
			if p == peerA {
				events = append(events, fmt.Sprintf("completed %s %s", rd.ID(), st))
			}
		})
		rs.GS.RegisterRequestorCancelledListener(func(p peer.ID, rd graphsync.RequestData) {
			if p == peerA {
				events = append(events, fmt.Sprintf("cancelled %s", rd.ID()))
			}
		})
		rs.GS.RegisterNetworkErrorListener(func(p peer.ID, rd graphsync.RequestData, err error) {
			if p == peerA {
				events = append(events, fmt.Sprintf("neterr %s", rd.ID()))
			}
		})
		send := func(from peer.ID, reqs ...gsmsg.GraphSyncRequest) {
			m := map[graphsync.RequestID]gsmsg.GraphSyncRequest{}
			for _, q := range reqs {
				m[q.ID()] = q
			}
			if err := w.Net.Inject(from, scen.RespID, gsmsg.NewMessage(m, nil, nil)); err != nil {
				panic(err)
			}
			w.Quiesce()
		}
		intrude := func(phase int) {
			if !withIntruder {
				return
			}
			for _, in := range c.Intr {
				if in.Phase != phase {
					continue
				}
				target := reqID(0)
				if in.Req == 1 && c.TwoReqs {
					target = reqID(1)
				}
				st := rs.Impl.PeerState(peerA).IncomingState.RequestStates
				if state, live := st[target]; live {
					r.liveAtIntr++
					r.statesHit = append(r.statesHit, state.String())
				}
				switch in.Kind {
				case "cancel":
					send(peerB, gsmsg.NewCancelRequest(target))
				case "update":
					send(peerB, gsmsg.NewUpdateRequest(target, graphsync.ExtensionData{Name: graphsync.ExtensionName(in.Ext), Data: basicnode.NewString("x")}))
				case "new":
					root := b.Cids[in.Root%len(b.Cids)]
					send(peerB, gsmsg.NewRequest(target, root, (&dagen.Sel{K: "match"}).Node(), 0))
				}
			}
		}
		// A's requests
		reqs := []gsmsg.GraphSyncRequest{gsmsg.NewRequest(reqID(0), b.Root, c.Sel.Node(), 0)}
		if c.TwoReqs {
			reqs = append(reqs, gsmsg.NewRequest(reqID(1), b.Root, c.Sel.Node(), 1))
		}
		send(peerA, reqs...)
		intrude(0)
		// release the hold
		switch c.Hold {
		case "pause":
			send(peerA, gsmsg.NewUpdateRequest(reqID(0), graphsync.ExtensionData{Name: extUnpause, Data: basicnode.NewString("go")}))
		case "gate":
			gateOpen = true
			close(gate)
			w.Quiesce()
		}
		intrude(1)
		w.Quiesce()
		intrude(2)
		w.Quiesce()
		if !gateOpen {
			gateOpen = true
			close(gate)
		}
		// A's transcript
		type tr struct {
			md       []string
			blocks   map[string]bool
			statuses []string
		}
		trs := map[graphsync.RequestID]*tr{}
		for _, e := range w.Net.Sent {
			if e.From != scen.RespID || e.To != peerA {
				continue
			}
			for _, rsp := range e.Msg.Responses() {
				t := trs[rsp.RequestID()]
				if t == nil {
					t = &tr{blocks: map[string]bool{}}
					trs[rsp.RequestID()] = t
				}
				rsp.Metadata().Iterate(func(cc cid.Cid, a graphsync.LinkAction) { t.md = append(t.md, cc.String()+":"+string(a)) })
				if rsp.Status() != graphsync.PartialResponse {
					t.statuses = append(t.statuses, rsp.Status().String())
				}
			}
			for _, blk := range e.Msg.Blocks() {
				// attribute to every request of A in this message (normalisation: set of blocks sent to A)
				for _, rsp := range e.Msg.Responses() {
					trs[rsp.RequestID()].blocks[blk.Cid().String()] = true
				}
			}
		}
		var ids []string
		for id := range trs {
			ids = append(ids, id.String())
		}
		sort.Strings(ids)
		var sb strings.Builder
		allBlocks := map[string]bool{}
		for _, ids := range ids {
			for id, t := range trs {
				if id.String() != ids {
					continue
				}
				fmt.Fprintf(&sb, "%s md=%v statuses=%v\n", ids, t.md, t.statuses)
				for k := range t.blocks {
					allBlocks[k] = true
				}
			}
		}
		var bl []string
		for k := range allBlocks {
			bl = append(bl, k)
		}
		sort.Strings(bl)
		fmt.Fprintf(&sb, "blocks=%v", bl)
		r.transcript = sb.String()
		sort.Strings(events)
		r.events = strings.Join(events, "\n")
		ps := rs.Impl.PeerState(peerA).IncomingState
		var ss []string
		for id, st := range ps.RequestStates {
			ss = append(ss, id.String()+"="+st.String())
		}
		sort.Strings(ss)
		r.state = strings.Join(ss, ",")
	})
	r.panicS = ro.Panic
	if ro.Hung && r.panicS == "" {
		r.panicS = ""
	}
	return r
}

func judge(c Case) *pbt.Verdict {
	v := &pbt.Verdict{}
	b, err := c.DAG.Build()
	if err != nil {
		v.Skip = true
		return v
	}
	a := one(c, b, false)
	x := one(c, b, true)
	v.Label("hold-" + c.Hold)
	for _, st := range x.statesHit {
		v.Label("intrusion-hits-" + strings.ReplaceAll(st, " ", "-") + "-response")
	}
	if x.liveAtIntr > 0 {
		v.Label("intrusion-hits-live-response")
	}
	v.NonTrivial = x.liveAtIntr > 0
	if a.panicS != "" || x.panicS != "" {
		return v.Failf("panic: %s %s", a.panicS, x.panicS)
	}
	if a.transcript != x.transcript {
		return v.Failf("what the responder sent to peer A differs when peer B interferes:\n--- alone ---\n%s\n--- with B ---\n%s", a.transcript, x.transcript)
	}
	if a.events != x.events {
		return v.Failf("listener events for peer A differ: alone [%s], with B [%s]", a.events, x.events)
	}
	if a.state != x.state {
		return v.Failf("PeerState(A) differs at the end: alone [%s], with B [%s]", a.state, x.state)
	}
	return v
}

var def = pbt.Def[Case]{Name: "cross-peer-requests", Gen: gen, Run: judge}

func TestProp(t *testing.T) {
	outerT = t
	pbt.Check(t, run, def, 8000, 400000)
}

func TestReplay(t *testing.T) {
	outerT = t
	pbt.Register(run, def)
	pbt.Register(run, defSame)
	run.Replay(t)
}
