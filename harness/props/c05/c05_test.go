package c05

import (
	"fmt"
	"strings"
	"testing"

	"pgregory.net/rapid"

	"verif/harness/pbt"
	"verif/harness/scen/resplife"
)

var run = pbt.Init("C05")
var outerT *testing.T

func TestMain(m *testing.M) { pbt.Main(m, run) }

const (
	kCancelNetErr = "C05-cancelled-then-network-error"
	kUpdAfterDone = "C05-update-after-completion-then-network-error"
)

func gen(t *rapid.T) resplife.Case { return resplife.Gen(t, run.N(8, 16)) }

func judge(c resplife.Case) *pbt.Verdict {
	v := &pbt.Verdict{}
	r := resplife.Run(outerT, c)
	if r.Skip {
		v.Skip = true
		return v
	}
	if r.Panic != "" {
		return v.Failf("panic: %s", r.Panic)
	}
	outcomes := map[string]bool{}
	var fail string
	var tolerated []string
	for i := range c.Reqs {
		if !r.Received[i] {
			continue
		}
		e := r.Events[i]
		C, X, N := len(e.Completed), e.Cancelled, e.NetErr
		if X > 0 && r.CancelMsgs[i] == 0 {
			fail = fmt.Sprintf("request %d reported as cancelled by the requestor, which never sent a cancel for it", i)
			break
		}
		switch {
		case C == 1 && X == 0 && N == 0:
			outcomes["completed"] = true
			wt := r.WireTerminal[i]
			if len(wt) == 0 || wt[len(wt)-1] != e.Completed[0] {
				fail = fmt.Sprintf("request %d reported completed with %s but the terminal statuses sent on the wire are %v", i, e.Completed[0], wt)
			}
		case C == 0 && X == 1 && N == 0:
			outcomes["cancelled"] = true
		case C == 0 && X == 1 && N >= 1 && run.Known(kCancelNetErr):
			// known finding: a message the cancelled request was attached to failed afterwards and the
			// network-error listener was told about a request already reported cancelled
			outcomes["cancelled"] = true
			tolerated = append(tolerated, kCancelNetErr)
		case C == 1 && X == 0 && N >= 1 && r.UpdOnComplete[i] && run.Known(kUpdAfterDone):
			// known finding: SendUpdate on a response that only waits for its final message attaches the
			// request to a later message; that message failing is reported for a completed request
			outcomes["completed"] = true
			tolerated = append(tolerated, kUpdAfterDone)
		case C == 0 && X == 0 && N >= 1:
			outcomes["network-error"] = true
		default:
			fail = fmt.Sprintf("request %d (hook %s) did not reach exactly one outcome: completed=%v cancelled=%d network-errors=%d; final states=%v", i, c.Reqs[i].ReqHook, e.Completed, X, N, r.FinalStates)
		}
		if fail != "" {
			break
		}
	}
	for o := range outcomes {
		v.Label("outcome-" + o)
	}
	for l := range r.Labels {
		v.Label(l)
	}
	for _, k := range tolerated {
		run.Count("tolerated:"+k, 1)
		v.Label("known-finding-pattern-tolerated")
	}
	if r.LiveHits > 0 {
		v.Label("control-or-fault-hits-live-response")
	}
	if r.SendFaults > 0 {
		v.Label("send-or-connect-fault-happened")
	}
	if r.StalledSends > 0 {
		v.Label("send-stalled")
	}
	v.NonTrivial = r.LiveHits > 0 || r.SendFaults > 0 || r.StalledSends > 0
	if fail != "" {
		return v.Failf("%s", fail)
	}
	if len(r.FinalStates) > 0 {
		return v.Failf("responder still lists request state after every request reached an outcome: %v", r.FinalStates)
	}
	if len(r.FinalTasks) > 0 {
		return v.Failf("task queue still holds tasks: %v", r.FinalTasks)
	}
	for _, p := range r.Protected {
		if strings.Contains(p, "|") {
			return v.Failf("connection protection not released: %v", r.Protected)
		}
	}
	if r.Allocated != 0 || r.PendingAlloc != 0 {
		return v.Failf("%d bytes still allocated (%d pending) for responses at the end", r.Allocated, r.PendingAlloc)
	}
	for p, missing := range r.ProbeMissing {
		return v.Failf("state for retired requests is still held: a fresh, plain request from %s was not sent %d of the blocks it reaches (%v)", p, len(missing), missing)
	}
	if r.Hung {
		v.Label("bubble-did-not-exit")
	}
	return v
}

var def = pbt.Def[resplife.Case]{Name: "responder-retirement", Gen: gen, Run: judge}

func TestProp(t *testing.T) {
	outerT = t
	pbt.Check(t, run, def, 8000, 400000)
}

func TestReplay(t *testing.T) {
	outerT = t
	pbt.Register(run, def)
	run.Replay(t)
}
