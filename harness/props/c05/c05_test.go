package c05

import (
	"errors"
	"fmt"
	"sort"
	"strings"
	"testing"

	"github.com/ipfs/go-cid"
	"github.com/ipld/go-ipld-prime/datamodel"
	"github.com/ipld/go-ipld-prime/node/basicnode"
	"github.com/libp2p/go-libp2p/core/peer"
	"pgregory.net/rapid"

	"github.com/ipfs/go-graphsync"
	gsimpl "github.com/ipfs/go-graphsync/impl"
	gsmsg "github.com/ipfs/go-graphsync/message"

	"verif/harness/dagen"
	"verif/harness/pbt"
	"verif/harness/scen"
	"verif/harness/sim"
)

var run = pbt.Init("C05")
var outerT *testing.T

func TestMain(m *testing.M) { pbt.Main(m, run) }

type ReqSpec struct {
	Peer    int    `json:"peer"`     // 0 or 1
	ReqHook string `json:"req_hook"` // validate novalidate error pause
	PauseAt int    `json:"pause_at"` // outgoing block hook pauses at this block index (0 = never)
	ErrAt   int    `json:"err_at"`   // outgoing block hook errors at this block index
	ExtAt   int    `json:"ext_at"`   // outgoing block hook sends extension data at this index
}

type Op struct {
	K   string `json:"k"` // new cancelmsg updatemsg apipause apiunpause apicancel apiupdate disconnect release
	R   int    `json:"r"`
	Ext string `json:"ext,omitempty"`
}

type Case struct {
	DAG       dagen.DAG  `json:"dag"`
	Sel       *dagen.Sel `json:"sel"`
	Reqs      []ReqSpec  `json:"reqs"`
	Ops       []Op       `json:"ops"`
	FailAt    []int      `json:"fail_at"` // indices of the responder's SendMsg attempts that fail
	Retries   int        `json:"retries"`
	ConnFail  []int      `json:"conn_fail"`  // indices of connect attempts that fail
	GateAt    int        `json:"gate_at"`    // n-th storage read blocks until a release op (0 = none)
	EndCancel bool       `json:"end_cancel"` // at the end paused responses are cancelled (else unpaused)
}

const (
	extUnpause = "test/unpause"
	extError   = "test/error"
)

func gen(t *rapid.T) Case {
	c := Case{DAG: dagen.GenDAG(t, dagen.GenOpts{MaxBlocks: run.N(8, 16), MaxDepth: 2}), Sel: dagen.RecAll(int64(rapid.SampledFrom([]int{-1, 3, 10}).Draw(t, "lim")))}
	n := rapid.IntRange(1, 4).Draw(t, "nreqs")
	for i := 0; i < n; i++ {
		r := ReqSpec{Peer: rapid.IntRange(0, 1).Draw(t, "peer"), ReqHook: rapid.SampledFrom([]string{"validate", "validate", "validate", "novalidate", "error", "pause"}).Draw(t, "reqhook")}
		if rapid.IntRange(0, 2).Draw(t, "haspause") == 0 {
			r.PauseAt = rapid.IntRange(1, 4).Draw(t, "pauseat")
		}
		if rapid.IntRange(0, 5).Draw(t, "haserr") == 0 {
			r.ErrAt = rapid.IntRange(1, 4).Draw(t, "errat")
		}
		if rapid.IntRange(0, 4).Draw(t, "hasext") == 0 {
			r.ExtAt = rapid.IntRange(1, 4).Draw(t, "extat")
		}
		c.Reqs = append(c.Reqs, r)
	}
	// ops: every request gets a "new"; other ops are sprinkled around
	var ops []Op
	for i := 0; i < n; i++ {
		ops = append(ops, Op{K: "new", R: i})
		m := rapid.IntRange(0, 3).Draw(t, "nops")
		for j := 0; j < m; j++ {
			op := Op{K: rapid.SampledFrom([]string{"cancelmsg", "updatemsg", "apipause", "apiunpause", "apicancel", "apiupdate", "disconnect", "release", "cancelmsg", "updatemsg"}).Draw(t, "opk"), R: rapid.IntRange(0, n-1).Draw(t, "opr")}
			op.Ext = rapid.SampledFrom([]string{extUnpause, extError, "other"}).Draw(t, "opext")
			ops = append(ops, op)
		}
	}
	c.Ops = ops
	c.FailAt = rapid.SliceOfNDistinct(rapid.IntRange(0, 12), 0, 3, rapid.ID[int]).Draw(t, "failat")
	c.Retries = rapid.IntRange(1, 2).Draw(t, "retries")
	if rapid.IntRange(0, 5).Draw(t, "hasconnfail") == 0 {
		c.ConnFail = rapid.SliceOfNDistinct(rapid.IntRange(0, 6), 1, 2, rapid.ID[int]).Draw(t, "connfail")
	}
	if rapid.IntRange(0, 2).Draw(t, "hasgate") == 0 {
		c.GateAt = rapid.IntRange(1, 6).Draw(t, "gateat")
	}
	c.EndCancel = rapid.Bool().Draw(t, "endcancel")
	return c
}

var peers = []peer.ID{scen.ReqID, scen.ThirdID}

func reqID(i int) graphsync.RequestID {
	b := []byte("c05-request-id-0")
	b[15] = byte('0' + i)
	id, _ := graphsync.ParseRequestID(b)
	return id
}

func judge(c Case) *pbt.Verdict {
	v := &pbt.Verdict{}
	b, err := c.DAG.Build()
	if err != nil {
		v.Skip = true
		return v
	}
	type evs struct {
		completed []graphsync.ResponseStatusCode
		cancelled int
		neterr    int
	}
	events := map[graphsync.RequestID]*evs{}
	ev := func(id graphsync.RequestID) *evs {
		if events[id] == nil {
			events[id] = &evs{}
		}
		return events[id]
	}
	idx := map[graphsync.RequestID]int{}
	for i := range c.Reqs {
		idx[reqID(i)] = i
	}
	received := map[int]bool{}
	liveHits := 0
	var fail string
	var finalStates, finalTasks, protected []string
	var allocated uint64
	wireTerminal := map[graphsync.RequestID][]graphsync.ResponseStatusCode{}
	ro := sim.Run(outerT, func(w *sim.World) {
		store := sim.NewStore(b.Data, true)
		gate := make(chan struct{})
		gateOpen := false
		reads := 0
		store.ReadHook = func(cc cid.Cid, _ datamodel.Path) error {
			reads++
			if c.GateAt > 0 && reads == c.GateAt && !gateOpen {
				<-gate
			}
			return nil
		}
		failSet := map[int]bool{}
		for _, i := range c.FailAt {
			failSet[i] = true
		}
		sendN := 0
		w.Net.SendPolicy = func(from, to peer.ID, n int, m gsmsg.GraphSyncMessage) sim.SendOutcome {
			if from != scen.RespID {
				return sim.SendOK
			}
			k := sendN
			sendN++
			if failSet[k] {
				return sim.SendFail
			}
			return sim.SendOK
		}
		connN := 0
		connFail := map[int]bool{}
		for _, i := range c.ConnFail {
			connFail[i] = true
		}
		w.Net.ConnectPolicy = func(from, to peer.ID) error {
			if from != scen.RespID {
				return nil
			}
			k := connN
			connN++
			if connFail[k] {
				return errors.New("sim: connect failed")
			}
			return nil
		}
		rs := w.AddInstance(scen.RespID, store, gsimpl.MessageSendRetries(c.Retries))
		for _, p := range peers {
			w.AddScripted(p)
		}
		rs.GS.RegisterIncomingRequestHook(func(p peer.ID, rd graphsync.RequestData, ha graphsync.IncomingRequestHookActions) {
			i, ok := idx[rd.ID()]
			if !ok {
				return
			}
			switch c.Reqs[i].ReqHook {
			case "validate":
				ha.ValidateRequest()
			case "error":
				ha.ValidateRequest()
				ha.TerminateWithError(errors.New("request hook says no"))
			case "pause":
				ha.ValidateRequest()
				ha.PauseResponse()
			}
		})
		rs.GS.RegisterOutgoingBlockHook(func(p peer.ID, rd graphsync.RequestData, bd graphsync.BlockData, ha graphsync.OutgoingBlockHookActions) {
			i, ok := idx[rd.ID()]
			if !ok {
				return
			}
			if int(bd.Index()) == c.Reqs[i].ExtAt {
				ha.SendExtensionData(graphsync.ExtensionData{Name: "test/blockext", Data: basicnode.NewString("hello")})
			}
			if int(bd.Index()) == c.Reqs[i].ErrAt {
				ha.TerminateWithError(errors.New("block hook says no"))
			}
			if int(bd.Index()) == c.Reqs[i].PauseAt {
				ha.PauseResponse()
			}
		})
		rs.GS.RegisterRequestUpdatedHook(func(p peer.ID, rd graphsync.RequestData, upd graphsync.RequestData, ha graphsync.RequestUpdatedHookActions) {
			if _, ok := upd.Extension(extUnpause); ok {
				ha.UnpauseResponse()
			}
			if _, ok := upd.Extension(extError); ok {
				ha.TerminateWithError(errors.New("update hook says no"))
			}
		})
		rs.GS.RegisterCompletedResponseListener(func(p peer.ID, rd graphsync.RequestData, st graphsync.ResponseStatusCode) {
			ev(rd.ID()).completed = append(ev(rd.ID()).completed, st)
		})
		rs.GS.RegisterRequestorCancelledListener(func(p peer.ID, rd graphsync.RequestData) { ev(rd.ID()).cancelled++ })
		rs.GS.RegisterNetworkErrorListener(func(p peer.ID, rd graphsync.RequestData, err error) { ev(rd.ID()).neterr++ })

		send := func(from peer.ID, q gsmsg.GraphSyncRequest) {
			if err := w.Net.Inject(from, scen.RespID, gsmsg.NewMessage(map[graphsync.RequestID]gsmsg.GraphSyncRequest{q.ID(): q}, nil, nil)); err != nil {
				panic(err)
			}
			w.Quiesce()
		}
		isLive := func(i int) bool {
			_, ok := rs.Impl.PeerState(peers[c.Reqs[i].Peer]).IncomingState.RequestStates[reqID(i)]
			return ok
		}
		for _, op := range c.Ops {
			i := op.R % len(c.Reqs)
			id := reqID(i)
			p := peers[c.Reqs[i].Peer]
			if op.K != "new" && received[i] && isLive(i) {
				liveHits++
			}
			switch op.K {
			case "new":
				if received[i] {
					continue
				}
				received[i] = true
				send(p, gsmsg.NewRequest(id, b.Root, c.Sel.Node(), graphsync.Priority(i)))
			case "cancelmsg":
				if received[i] {
					send(p, gsmsg.NewCancelRequest(id))
				}
			case "updatemsg":
				if received[i] {
					send(p, gsmsg.NewUpdateRequest(id, graphsync.ExtensionData{Name: graphsync.ExtensionName(op.Ext), Data: basicnode.NewString("x")}))
				}
			case "apipause":
				_ = rs.GS.Pause(w.Ctx, id)
				w.Quiesce()
			case "apiunpause":
				_ = rs.GS.Unpause(w.Ctx, id)
				w.Quiesce()
			case "apicancel":
				_ = rs.GS.Cancel(w.Ctx, id)
				w.Quiesce()
			case "apiupdate":
				_ = rs.GS.SendUpdate(w.Ctx, id, graphsync.ExtensionData{Name: "test/apiupdate", Data: basicnode.NewString("u")})
				w.Quiesce()
			case "disconnect":
				w.Net.Disconnect(scen.RespID, p)
				w.Quiesce()
			case "release":
				if !gateOpen {
					gateOpen = true
					close(gate)
				}
				w.Quiesce()
			}
		}
		if !gateOpen {
			gateOpen = true
			close(gate)
		}
		w.Quiesce()
		// premise: every paused response is eventually unpaused or cancelled
		for round := 0; round < 6; round++ {
			any := false
			for i := range c.Reqs {
				st, ok := rs.Impl.PeerState(peers[c.Reqs[i].Peer]).IncomingState.RequestStates[reqID(i)]
				if ok && st == graphsync.Paused {
					any = true
					if c.EndCancel {
						_ = rs.GS.Cancel(w.Ctx, reqID(i))
					} else {
						_ = rs.GS.Unpause(w.Ctx, reqID(i))
					}
					w.Quiesce()
				}
			}
			if !any {
				break
			}
		}
		w.Quiesce()
		for _, p := range peers {
			ps := rs.Impl.PeerState(p).IncomingState
			for id, st := range ps.RequestStates {
				finalStates = append(finalStates, fmt.Sprintf("%s:%s=%s", p, id, st))
			}
			for _, id := range ps.TaskQueueState.Active {
				finalTasks = append(finalTasks, fmt.Sprintf("%s:active:%s", p, id))
			}
			for _, id := range ps.TaskQueueState.Pending {
				finalTasks = append(finalTasks, fmt.Sprintf("%s:pending:%s", p, id))
			}
		}
		protected = rs.End.CM.Protected()
		allocated = rs.GS.Stats().OutgoingResponses.TotalAllocatedAllPeers
		for _, e := range w.Net.Sent {
			if e.From != scen.RespID {
				continue
			}
			for _, r := range e.Msg.Responses() {
				if r.Status() >= 20 {
					wireTerminal[r.RequestID()] = append(wireTerminal[r.RequestID()], r.Status())
				}
			}
		}
	})
	if ro.Panic != "" {
		return v.Failf("panic: %s", ro.Panic)
	}
	sort.Strings(finalStates)
	outcomes := map[string]bool{}
	for i := range c.Reqs {
		if !received[i] {
			continue
		}
		id := reqID(i)
		e := ev(id)
		C, X, N := len(e.completed), e.cancelled, e.neterr
		switch {
		case C == 1 && X == 0 && N == 0:
			outcomes["completed"] = true
			wt := wireTerminal[id]
			if len(wt) == 0 || wt[len(wt)-1] != e.completed[0] {
				fail = fmt.Sprintf("request %d reported completed with %s but the terminal status on the wire is %v", i, e.completed[0], wt)
			}
		case C == 0 && X == 1:
			outcomes["cancelled"] = true
		case C == 0 && X == 0 && N >= 1:
			outcomes["network-error"] = true
		default:
			fail = fmt.Sprintf("request %d (hook %s) did not reach exactly one outcome: completed=%v cancelled=%d network-errors=%d; states=%v", i, c.Reqs[i].ReqHook, e.completed, X, N, finalStates)
		}
		if fail != "" {
			break
		}
	}
	for o := range outcomes {
		v.Label("outcome-" + o)
	}
	if liveHits > 0 {
		v.Label("control-or-fault-hits-live-response")
	}
	v.NonTrivial = liveHits > 0 || len(c.FailAt) > 0
	if fail != "" {
		return v.Failf("%s", fail)
	}
	if len(finalStates) > 0 {
		return v.Failf("responder still lists request state after every request reached an outcome: %v", finalStates)
	}
	if len(finalTasks) > 0 {
		return v.Failf("task queue still holds tasks: %v", finalTasks)
	}
	for _, p := range protected {
		if strings.Contains(p, "|") {
			return v.Failf("connection protection not released: %v", protected)
		}
	}
	if allocated != 0 {
		return v.Failf("%d bytes still allocated for responses at the end", allocated)
	}
	return v
}

var def = pbt.Def[Case]{Name: "responder-retirement", Gen: gen, Run: judge}

func TestProp(t *testing.T) {
	outerT = t
	pbt.Check(t, run, def, 2500, 60000)
}

func TestReplay(t *testing.T) {
	outerT = t
	pbt.Register(run, def)
	run.Replay(t)
}
