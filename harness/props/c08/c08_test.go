package c08

import (
	"fmt"
	"math"
	"testing"

	"github.com/ipfs/go-cid"
	"github.com/ipld/go-ipld-prime"
	"github.com/ipld/go-ipld-prime/datamodel"
	"github.com/ipld/go-ipld-prime/fluent/qp"
	cidlink "github.com/ipld/go-ipld-prime/linking/cid"
	"github.com/ipld/go-ipld-prime/node/basicnode"
	"github.com/ipld/go-ipld-prime/traversal/selector"
	"github.com/libp2p/go-libp2p/core/peer"
	mh "github.com/multiformats/go-multihash"
	"pgregory.net/rapid"

	"github.com/ipfs/go-graphsync"
	gsmsg "github.com/ipfs/go-graphsync/message"
	"github.com/ipfs/go-graphsync/selectorvalidator"

	"verif/harness/dagen"
	"verif/harness/pbt"
	"verif/harness/scen"
	"verif/harness/sim"
)

var run = pbt.Init("C08")
var outerT *testing.T

func TestMain(m *testing.M) { pbt.Main(m, run) }

// S is a selector AST over the full grammar, rendered by hand so that
// optional and extraneous entries can be present.
type S struct {
	K      string   `json:"k"` // match all fields index range union rec edge interp
	Fields []string `json:"fields,omitempty"`
	Subs   []*S     `json:"subs,omitempty"`
	I      int64    `json:"i,omitempty"`
	J      int64    `json:"j,omitempty"`
	Limit  int64    `json:"limit,omitempty"` // rec: depth, or -1 for none
	Stop   bool     `json:"stop,omitempty"`  // rec: has a stop-at condition
	Subset bool     `json:"subset,omitempty"`
	ADL    string   `json:"adl,omitempty"`
	Junk   bool     `json:"junk,omitempty"` // clause body carries an extra, ignored entry
	// Hook (root only, end-to-end check only): a further incoming-request hook the responder's user registered
	// beside the default validator: "" none, "pause" pauses the response, "ext" sends extension data; neither
	// validates, so the default validation alone decides
	Hook string `json:"hook,omitempty"`
}

var limits = []int64{-1, 0, 1, 50, 99, 100, 101, 1000000, math.MaxInt64}
var fieldNames = []string{"a", "R", "f", "f>", "|", "~", ">", ":>", "l", "none", "depth", "i", "r", "&", ".", "@", "as"}

const maxDepth = 100

// bad reports whether the selector contains a recursive exploration that is unbounded or deeper than 100.
func (s *S) bad() bool {
	if s.K == "rec" && (s.Limit < 0 || s.Limit > maxDepth) {
		return true
	}
	for _, x := range s.Subs {
		if x.bad() {
			return true
		}
	}
	return false
}

func (s *S) depth() int {
	d := 0
	for _, x := range s.Subs {
		if k := x.depth(); k > d {
			d = k
		}
	}
	return d + 1
}

// stats: number of rec clauses, max nesting of a rec under other clauses, kinds of parents of recs
func (s *S) walk(parents []string, f func(s *S, parents []string)) {
	f(s, parents)
	for _, x := range s.Subs {
		x.walk(append(append([]string(nil), parents...), s.K), f)
	}
}

func junk(ma datamodel.MapAssembler) {
	// an entry the selector parser ignores; shaped like a nested unbounded recursion to tempt the validator
	qp.MapEntry(ma, "zz", qp.Map(1, func(ma datamodel.MapAssembler) {
		qp.MapEntry(ma, "R", qp.Map(2, func(ma datamodel.MapAssembler) {
			qp.MapEntry(ma, "l", qp.Map(1, func(ma datamodel.MapAssembler) { qp.MapEntry(ma, "depth", qp.Int(5)) }))
			qp.MapEntry(ma, ":>", qp.Map(1, func(ma datamodel.MapAssembler) { qp.MapEntry(ma, "@", qp.Map(0, func(datamodel.MapAssembler) {})) }))
		}))
	}))
}

func (s *S) assemble() qp.Assemble {
	body := func(n int64, f func(ma datamodel.MapAssembler)) qp.Assemble {
		return qp.Map(n+1, func(ma datamodel.MapAssembler) {
			f(ma)
			if s.Junk {
				junk(ma)
			}
		})
	}
	wrap := func(key string, b qp.Assemble) qp.Assemble {
		return qp.Map(1, func(ma datamodel.MapAssembler) { qp.MapEntry(ma, key, b) })
	}
	switch s.K {
	case "match":
		return wrap(".", body(1, func(ma datamodel.MapAssembler) {
			if s.Subset {
				qp.MapEntry(ma, "subset", qp.Map(2, func(ma datamodel.MapAssembler) {
					qp.MapEntry(ma, "[", qp.Int(0))
					qp.MapEntry(ma, "]", qp.Int(10))
				}))
			}
		}))
	case "edge":
		return wrap("@", body(0, func(datamodel.MapAssembler) {}))
	case "all":
		return wrap("a", body(1, func(ma datamodel.MapAssembler) { qp.MapEntry(ma, ">", s.Subs[0].assemble()) }))
	case "fields":
		return wrap("f", body(1, func(ma datamodel.MapAssembler) {
			qp.MapEntry(ma, "f>", qp.Map(int64(len(s.Fields)), func(ma datamodel.MapAssembler) {
				for i, f := range s.Fields {
					qp.MapEntry(ma, f, s.Subs[i].assemble())
				}
			}))
		}))
	case "index":
		return wrap("i", body(2, func(ma datamodel.MapAssembler) {
			qp.MapEntry(ma, "i", qp.Int(s.I))
			qp.MapEntry(ma, ">", s.Subs[0].assemble())
		}))
	case "range":
		return wrap("r", body(3, func(ma datamodel.MapAssembler) {
			qp.MapEntry(ma, "^", qp.Int(s.I))
			qp.MapEntry(ma, "$", qp.Int(s.J))
			qp.MapEntry(ma, ">", s.Subs[0].assemble())
		}))
	case "union":
		return wrap("|", qp.List(int64(len(s.Subs)), func(la datamodel.ListAssembler) {
			for _, x := range s.Subs {
				qp.ListEntry(la, x.assemble())
			}
		}))
	case "rec":
		return wrap("R", body(3, func(ma datamodel.MapAssembler) {
			qp.MapEntry(ma, "l", qp.Map(1, func(ma datamodel.MapAssembler) {
				if s.Limit < 0 {
					qp.MapEntry(ma, "none", qp.Map(0, func(datamodel.MapAssembler) {}))
				} else {
					qp.MapEntry(ma, "depth", qp.Int(s.Limit))
				}
			}))
			qp.MapEntry(ma, ":>", s.Subs[0].assemble())
			if s.Stop {
				qp.MapEntry(ma, "!", qp.Map(1, func(ma datamodel.MapAssembler) {
					qp.MapEntry(ma, string(selector.ConditionMode_Link), qp.Link(cidlink.Link{Cid: stopCid}))
				}))
			}
		}))
	case "interp":
		return wrap("~", body(2, func(ma datamodel.MapAssembler) {
			qp.MapEntry(ma, "as", qp.String(s.ADL))
			qp.MapEntry(ma, ">", s.Subs[0].assemble())
		}))
	}
	panic("bad kind " + s.K)
}

var stopCid = func() cid.Cid {
	c, err := cid.Prefix{Version: 1, Codec: cid.Raw, MhType: mh.SHA2_256, MhLength: 32}.Sum([]byte("stop"))
	if err != nil {
		panic(err)
	}
	return c
}()

func (s *S) Node() (n ipld.Node, err error) {
	defer func() {
		if r := recover(); r != nil {
			err = fmt.Errorf("%v", r)
		}
	}()
	nb := basicnode.Prototype.Any.NewBuilder()
	s.assemble()(nb)
	return nb.Build(), nil
}

// ---- generator ----

func genS(t *rapid.T, depth int, inRec bool) *S {
	k := rapid.IntRange(0, 11).Draw(t, "k")
	if depth >= 5 {
		k = k % 2 // leaves only
	}
	s := &S{Junk: rapid.IntRange(0, 7).Draw(t, "junk") == 0}
	switch k {
	case 0:
		s.K = "match"
		s.Subset = rapid.IntRange(0, 4).Draw(t, "subset") == 0
	case 1:
		if inRec {
			s.K = "edge"
		} else {
			s.K = "match"
		}
	case 2:
		s.K = "all"
		s.Subs = []*S{genS(t, depth+1, inRec)}
	case 3:
		s.K = "fields"
		n := rapid.IntRange(1, 3).Draw(t, "nf")
		seen := map[string]bool{}
		for i := 0; i < n; i++ {
			f := rapid.SampledFrom(fieldNames).Draw(t, "fname")
			if seen[f] {
				continue
			}
			seen[f] = true
			s.Fields = append(s.Fields, f)
			s.Subs = append(s.Subs, genS(t, depth+1, inRec))
		}
	case 4:
		s.K = "index"
		s.I = int64(rapid.IntRange(0, 3).Draw(t, "ix"))
		s.Subs = []*S{genS(t, depth+1, inRec)}
	case 5:
		s.K = "range"
		s.I = int64(rapid.IntRange(0, 3).Draw(t, "ra"))
		s.J = s.I + int64(rapid.IntRange(1, 3).Draw(t, "rb"))
		s.Subs = []*S{genS(t, depth+1, inRec)}
	case 6:
		s.K = "union"
		n := rapid.IntRange(1, 3).Draw(t, "nu")
		for i := 0; i < n; i++ {
			s.Subs = append(s.Subs, genS(t, depth+1, inRec))
		}
	case 7, 8, 9:
		s.K = "rec"
		s.Limit = rapid.SampledFrom(limits).Draw(t, "limit")
		s.Stop = rapid.IntRange(0, 4).Draw(t, "stop") == 0
		body := genS(t, depth+1, true)
		if !hasEdge(body) {
			// a recursive exploration must contain an edge: graft one
			body = &S{K: "union", Subs: []*S{body, {K: "all", Subs: []*S{{K: "edge"}}}}}
		}
		s.Subs = []*S{body}
	default:
		s.K = "interp"
		s.ADL = rapid.SampledFrom([]string{"unixfs", "unixfs-preload", "hamt", ""}).Draw(t, "adl")
		s.Subs = []*S{genS(t, depth+1, inRec)}
	}
	return s
}

// hasEdge: an edge belonging to this recursion level (not inside a nested rec)
func hasEdge(s *S) bool {
	if s.K == "edge" {
		return true
	}
	if s.K == "rec" {
		return false
	}
	for _, x := range s.Subs {
		if hasEdge(x) {
			return true
		}
	}
	return false
}

func (s *S) String() string {
	out := s.K
	if s.K == "rec" {
		out += fmt.Sprint(s.Limit)
	}
	if s.K == "fields" {
		out += fmt.Sprint(s.Fields)
	}
	if len(s.Subs) > 0 {
		out += "("
		for _, x := range s.Subs {
			out += x.String() + " "
		}
		out += ")"
	}
	return out
}

func classify(v *pbt.Verdict, s *S) {
	nested := false
	s.walk(nil, func(x *S, parents []string) {
		if x.K == "rec" {
			if len(parents) > 0 {
				nested = true
				v.Label("rec-under-" + parents[len(parents)-1])
			}
		}
	})
	v.NonTrivial = nested
	if d := s.depth(); d >= 30 {
		v.Label("nesting>=30")
	}
	if s.bad() {
		v.Label("truth-bad")
	} else {
		v.Label("truth-ok")
	}
}

func knownInterp(s *S) bool {
	// class of the interpret-as finding: a bad recursion sits below an interpret-as clause
	found := false
	s.walk(nil, func(x *S, parents []string) {
		if x.K == "rec" && (x.Limit < 0 || x.Limit > maxDepth) {
			for _, p := range parents {
				if p == "interp" {
					found = true
				}
			}
		}
	})
	return found
}

func judge(s *S) *pbt.Verdict {
	v := &pbt.Verdict{}
	n, err := s.Node()
	if err != nil {
		v.Skip = true
		return v
	}
	if _, err := selector.ParseSelector(n); err != nil {
		v.Skip = true // not well-formed: outside the property's domain (counted)
		return v
	}
	if knownInterp(s) && run.Known("C08-interpret-as") {
		v.Excluded = "C08-interpret-as"
		return v
	}
	classify(v, s)
	v.Note = s.String()
	verr := selectorvalidator.ValidateMaxRecursionDepth(n, maxDepth)
	// also through the wire form
	wn := dagen.Canonical(n)
	werr := selectorvalidator.ValidateMaxRecursionDepth(wn, maxDepth)
	if (verr != nil) != (werr != nil) {
		return v.Failf("validation differs between the built node (%v) and its wire form (%v)", verr, werr)
	}
	if s.bad() && verr == nil {
		return v.Failf("selector with an unbounded or >100 recursion passes default validation: %s", s)
	}
	if !s.bad() && verr != nil {
		return v.Failf("selector whose recursions are all <= 100 is rejected (%v): %s", verr, s)
	}
	return v
}

// end-to-end: a default-configured responder answers RequestRejected iff bad
func judgeE2E(s *S) *pbt.Verdict {
	v := &pbt.Verdict{}
	n, err := s.Node()
	if err != nil {
		v.Skip = true
		return v
	}
	if _, err := selector.ParseSelector(n); err != nil {
		v.Skip = true
		return v
	}
	if knownInterp(s) && run.Known("C08-interpret-as") {
		v.Excluded = "C08-interpret-as"
		return v
	}
	classify(v, s)
	v.Note = s.String()
	d := dagen.DAG{Blocks: []dagen.Block{{Node: &dagen.Val{K: "map", Keys: []string{"a"}, Vals: []*dagen.Val{{K: "int", I: 1}}}}}}
	b, _ := d.Build()
	var final graphsync.ResponseStatusCode
	var n_resp int
	paused := false
	ro := sim.Run(outerT, func(w *sim.World) {
		rs := w.AddInstance(scen.RespID, sim.NewStore(b.Data, true)) // default options: default validator registered
		switch s.Hook {
		case "pause":
			rs.GS.RegisterIncomingRequestHook(func(_ peer.ID, _ graphsync.RequestData, ha graphsync.IncomingRequestHookActions) { ha.PauseResponse() })
		case "ext":
			rs.GS.RegisterIncomingRequestHook(func(_ peer.ID, _ graphsync.RequestData, ha graphsync.IncomingRequestHookActions) {
				ha.SendExtensionData(graphsync.ExtensionData{Name: "test/hello", Data: basicnode.NewString("x")})
			})
		}
		w.AddScripted(scen.ReqID)
		id, _ := graphsync.ParseRequestID([]byte("c08-request-id-0"))
		req := gsmsg.NewRequest(id, b.Root, n, 0)
		if err := w.Net.Inject(scen.ReqID, scen.RespID, gsmsg.NewMessage(map[graphsync.RequestID]gsmsg.GraphSyncRequest{id: req}, nil, nil)); err != nil {
			panic(err)
		}
		w.Quiesce()
		for _, e := range w.Net.Sent {
			if e.From == scen.RespID {
				for _, r := range e.Msg.Responses() {
					n_resp++
					if r.Status().IsTerminal() {
						final = r.Status()
					}
					if r.Status() == graphsync.RequestPaused {
						paused = true
					}
				}
			}
		}
	})
	if ro.Panic != "" {
		return v.Failf("panic: %s", ro.Panic)
	}
	if n_resp == 0 {
		return v.Failf("no response to the request")
	}
	if s.Hook != "" {
		v.Label("further-request-hook-" + s.Hook)
	}
	if s.bad() && paused {
		return v.Failf("responder parked (RequestPaused) a request whose selector has an unbounded or >100 recursion instead of rejecting it: %s", s)
	}
	if s.bad() && final != graphsync.RequestRejected {
		return v.Failf("responder answered %s to a selector with an unbounded or >100 recursion: %s", final, s)
	}
	if !s.bad() && final == graphsync.RequestRejected {
		return v.Failf("responder rejected a selector whose recursions are all <= 100: %s", s)
	}
	return v
}

func gen(t *rapid.T) *S {
	s := gen0(t)
	s.Hook = rapid.SampledFrom([]string{"", "", "pause", "ext"}).Draw(t, "hook")
	return s
}

func gen0(t *rapid.T) *S {
	s := genS(t, 0, false)
	// one case in eight buries the selector under many nested clauses ("at any nesting depth")
	if rapid.IntRange(0, 7).Draw(t, "deep") == 0 {
		n := rapid.SampledFrom([]int{8, 16, 31, 32, 33, 40, 64}).Draw(t, "layers")
		for i := 0; i < n; i++ {
			switch rapid.IntRange(0, 5).Draw(t, "layer") {
			case 0:
				s = &S{K: "all", Subs: []*S{s}}
			case 1:
				s = &S{K: "fields", Fields: []string{rapid.SampledFrom(fieldNames).Draw(t, "lf")}, Subs: []*S{s}}
			case 2:
				s = &S{K: "index", I: 0, Subs: []*S{s}}
			case 3:
				s = &S{K: "range", I: 0, J: 2, Subs: []*S{s}}
			case 4:
				s = &S{K: "union", Subs: []*S{{K: "match"}, s}}
			default:
				s = &S{K: "interp", ADL: "unixfs", Subs: []*S{s}}
			}
		}
	}
	return s
}

var def = pbt.Def[*S]{Name: "validator", Gen: gen0, Run: judge}
var defE2E = pbt.Def[*S]{Name: "responder-status", Gen: gen, Run: judgeE2E}

func TestProp(t *testing.T) {
	outerT = t
	pbt.Check(t, run, def, 60000, 5000000)
	pbt.Check(t, run, defE2E, 2000, 100000)
}

func TestReplay(t *testing.T) {
	outerT = t
	pbt.Register(run, def)
	pbt.Register(run, defE2E)
	run.Replay(t)
}
