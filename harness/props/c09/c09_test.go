package c09

import (
	"errors"
	"fmt"
	"sort"
	"strings"
	"testing"

	blocks "github.com/ipfs/go-block-format"
	"github.com/ipfs/go-cid"
	"github.com/ipld/go-ipld-prime/node/basicnode"
	"github.com/libp2p/go-libp2p/core/peer"
	"pgregory.net/rapid"

	"github.com/ipfs/go-graphsync"
	gsmsg "github.com/ipfs/go-graphsync/message"

	"verif/harness/pbt"
	"verif/harness/scen"
	"verif/harness/sim"
)

var run = pbt.Init("C09")
var outerT *testing.T

func TestMain(m *testing.M) { pbt.Main(m, run) }

type Entry struct {
	Pool   int `json:"pool"`
	Action int `json:"action"`
}

type Intrusion struct {
	AtStep  int      `json:"at_step"` // before the AtStep-th honest delivery (large = after the exchange)
	Status  int      `json:"status"`
	Entries []Entry  `json:"entries"`
	Blocks  []int    `json:"blocks"`
	Exts    []string `json:"exts"`
}

type Case struct {
	Base scen.Base   `json:"base"`
	Intr []Intrusion `json:"intrusions"`
}

var statuses = []graphsync.ResponseStatusCode{10, 11, 12, 13, 14, 15, 20, 21, 30, 31, 32, 33, 34, 35}
var actions = []graphsync.LinkAction{graphsync.LinkActionPresent, graphsync.LinkActionDuplicateNotSent, graphsync.LinkActionMissing, graphsync.LinkActionDuplicateDAGSkipped}

const (
	trigErr    = "trigger/error"
	trigUpdate = "trigger/update"
	trigPause  = "trigger/pause"
)

func gen(t *rapid.T) Case {
	c := Case{Base: scen.GenBase(t, run.N(10, 24))}
	n := rapid.IntRange(1, 4).Draw(t, "nintr")
	for i := 0; i < n; i++ {
		in := Intrusion{AtStep: rapid.IntRange(0, 8).Draw(t, "at"), Status: rapid.IntRange(0, len(statuses)-1).Draw(t, "status")}
		ne := rapid.IntRange(0, 3).Draw(t, "ne")
		for j := 0; j < ne; j++ {
			in.Entries = append(in.Entries, Entry{Pool: rapid.IntRange(0, 30).Draw(t, "pool"), Action: rapid.IntRange(0, 3).Draw(t, "action")})
		}
		in.Blocks = rapid.SliceOfN(rapid.IntRange(0, 30), 0, 2).Draw(t, "blocks")
		in.Exts = rapid.SliceOfNDistinct(rapid.SampledFrom([]string{trigErr, trigUpdate, trigPause, "other/ext"}), 0, 2, rapid.ID[string]).Draw(t, "exts")
		c.Intr = append(c.Intr, in)
	}
	return c
}

type hookLog struct {
	peers []string // "kind:peer"
	live  func() bool
	// hooks invoked for the third peer while the request was in progress
	thirdWhileLive []string
}

func setupHooks(rq *sim.Inst, log *hookLog) {
	rq.GS.RegisterIncomingResponseHook(func(p peer.ID, r graphsync.ResponseData, ha graphsync.IncomingResponseHookActions) {
		log.peers = append(log.peers, "response:"+string(p))
		if p == scen.ThirdID && log.live != nil && log.live() {
			log.thirdWhileLive = append(log.thirdWhileLive, "response")
		}
		if _, ok := r.Extension(trigErr); ok {
			ha.TerminateWithError(errors.New("response hook error triggered"))
		}
		if d, ok := r.Extension(trigUpdate); ok {
			ha.UpdateRequestWithExtensions(graphsync.ExtensionData{Name: trigUpdate, Data: d})
		}
	})
	rq.GS.RegisterIncomingBlockHook(func(p peer.ID, r graphsync.ResponseData, b graphsync.BlockData, ha graphsync.IncomingBlockHookActions) {
		log.peers = append(log.peers, "block:"+string(p))
		if p == scen.ThirdID {
			log.thirdWhileLive = append(log.thirdWhileLive, "block")
		}
		if _, ok := r.Extension(trigErr); ok {
			ha.TerminateWithError(errors.New("block hook error triggered"))
		}
		if _, ok := r.Extension(trigPause); ok {
			ha.PauseRequest()
		}
	})
}

func reqTypes(o scen.Outcome, to peer.ID) []string {
	var out []string
	for _, e := range o.Sent {
		if e.From == scen.ReqID && e.To == to {
			var ts []string
			for _, r := range e.Msg.Requests() {
				ts = append(ts, string(r.Type()))
			}
			sort.Strings(ts)
			out = append(out, strings.Join(ts, "+"))
		}
	}
	return out
}

func judge(c Case) *pbt.Verdict {
	v := &pbt.Verdict{}
	p, ok := c.Base.Prepare()
	if !ok {
		v.Skip = true
		return v
	}
	if p.K2(p.Ref.LocalPrefix) && run.Known("C02-K2-skipcount-units") {
		v.Excluded = "C02-K2-skipcount-units"
		return v
	}
	// run A: no intruder
	logA := &hookLog{}
	a := scen.Exchange(outerT, p, scen.ExOpts{Setup: func(w *sim.World, rq, rs *sim.Inst) { setupHooks(rq, logA) }})
	// run B: with the intruder
	logB := &hookLog{}
	inProgressHits := 0
	sentToThirdWhileLive := 0
	triggerHits := 0
	b := scen.Exchange(outerT, p, scen.ExOpts{
		Setup: func(w *sim.World, rq, rs *sim.Inst) {
			setupHooks(rq, logB)
			w.AddScripted(scen.ThirdID)
		},
		Drive: func(w *sim.World, rq, rs *sim.Inst, res *sim.ReqResult) {
			logB.live = func() bool {
				_, _, rc, ec := res.Snapshot()
				return !rc || !ec
			}
			var id graphsync.RequestID
			haveID := false
			fire := func(in Intrusion) {
				if !haveID {
					return
				}
				var md []gsmsg.GraphSyncLinkMetadatum
				for _, e := range in.Entries {
					md = append(md, gsmsg.GraphSyncLinkMetadatum{Link: p.B.Order[e.Pool%len(p.B.Order)], Action: actions[e.Action%4]})
				}
				var exts []graphsync.ExtensionData
				for _, n := range in.Exts {
					exts = append(exts, graphsync.ExtensionData{Name: graphsync.ExtensionName(n), Data: basicnode.NewString("x")})
				}
				blks := map[cid.Cid]blocks.Block{}
				for _, bi := range in.Blocks {
					cc := p.B.Order[bi%len(p.B.Order)]
					blk, _ := blocks.NewBlockWithCid(p.B.Data[cc], cc)
					blks[cc] = blk
				}
				resp := gsmsg.NewResponse(id, statuses[in.Status%len(statuses)], md, exts...)
				_, _, rc, ec := res.Snapshot()
				if !rc || !ec {
					inProgressHits++
					for _, n := range in.Exts {
						if n != "other/ext" {
							triggerHits++
							break
						}
					}
				}
				wasLive := !rc || !ec
				if err := w.Net.Inject(scen.ThirdID, scen.ReqID, gsmsg.NewMessage(nil, map[graphsync.RequestID]gsmsg.GraphSyncResponse{id: resp}, blks)); err == nil {
					before := len(w.Net.Attempts)
					w.Net.Deliver(scen.ThirdID, scen.ReqID)
					w.Wait()
					if wasLive {
						for _, e := range w.Net.Attempts[before:] {
							if e.From == scen.ReqID && e.To == scen.ThirdID {
								sentToThirdWhileLive++
							}
						}
					}
				}
			}
			step := 0
			for {
				w.Wait()
				if !haveID {
					for _, e := range w.Net.Sent {
						for _, r := range e.Msg.Requests() {
							if e.From == scen.ReqID && r.Type() == graphsync.RequestTypeNew {
								id, haveID = r.ID(), true
							}
						}
					}
				}
				for _, in := range c.Intr {
					if in.AtStep == step {
						fire(in)
					}
				}
				var next *[2]peer.ID
				for _, l := range w.Net.PendingLinks() {
					if l[0] != scen.ThirdID && l[1] != scen.ThirdID {
						l := l
						next = &l
						break
					}
				}
				if next == nil {
					break
				}
				w.Net.Deliver(next[0], next[1])
				step++
			}
			for _, in := range c.Intr {
				if in.AtStep >= step {
					fire(in)
				}
			}
		},
	})
	labels, _ := p.Shape()
	v.Labels = labels
	if inProgressHits > 0 {
		v.Label("intrusion-while-in-progress")
	}
	if triggerHits > 0 {
		v.Label("intrusion-with-trigger-extension")
	}
	v.NonTrivial = inProgressHits > 0
	v.Note = fmt.Sprintf("%s intrusions=%d in-progress=%d triggers=%d", p.Note(), len(c.Intr), inProgressHits, triggerHits)
	if a.Panic != "" || b.Panic != "" {
		return v.Failf("panic: %s %s", a.Panic, b.Panic)
	}
	// (a response that arrives after the request has ended reaches the response hooks whoever sent it:
	// there is no request left to protect, and the genuine responder's own late statuses do the same)
	if len(logB.thirdWhileLive) > 0 {
		return v.Failf("a %s hook was invoked for the third peer's message while the request was in progress", logB.thirdWhileLive[0])
	}
	if sentToThirdWhileLive > 0 {
		return v.Failf("requestor sent %d message(s) to the third peer in reaction to its message for a request in progress", sentToThirdWhileLive)
	}
	if ta, tb := fmt.Sprint(reqTypes(a, scen.RespID)), fmt.Sprint(reqTypes(b, scen.RespID)); ta != tb {
		return v.Failf("requests sent to the genuine responder differ: without intruder %s, with %s", ta, tb)
	}
	if a.Key() != b.Key() {
		return v.Failf("outcome differs with the intruder: delivered %d vs %d nodes, errors %v vs %v, closed %v/%v vs %v/%v", len(a.Visits), len(b.Visits), a.Errs, b.Errs, a.RespClosed, a.ErrClosed, b.RespClosed, b.ErrClosed)
	}
	if a.RespClosed != b.RespClosed || a.ErrClosed != b.ErrClosed {
		return v.Failf("channel closure differs with the intruder")
	}
	// response-hook invocations depend on how the responder batched its messages, which legitimately varies;
	// block-hook invocations (one per validated block) must be identical
	if fmt.Sprint(onlyBlocks(logA.peers)) != fmt.Sprint(onlyBlocks(logB.peers)) {
		return v.Failf("hook invocations differ with the intruder: %v vs %v", logA.peers, logB.peers)
	}
	return v
}

func onlyBlocks(l []string) []string {
	var out []string
	for _, x := range l {
		if strings.HasPrefix(x, "block:") {
			out = append(out, x)
		}
	}
	return out
}

var def = pbt.Def[Case]{Name: "third-peer-responses", Gen: gen, Run: judge}

func TestProp(t *testing.T) {
	outerT = t
	pbt.Check(t, run, def, 3000, 150000)
	pbt.Check(t, run, defMulti, 2000, 100000)
}

func TestReplay(t *testing.T) {
	outerT = t
	pbt.Register(run, def)
	pbt.Register(run, defMulti)
	run.Replay(t)
}
