package c09

import (
	"fmt"
	"os"
	"strings"

	"pgregory.net/rapid"

	"verif/harness/dagen"
	"verif/harness/pbt"
	"verif/harness/scen"
	"verif/harness/scen/duo"
)

// Several requests at once, pauses on the requestor, and a third peer whose messages name several
// live request ids at once. Every case is run with and without the intruding messages; the
// intruding messages are delivered atomically, so the rest of the schedule is the same in both runs.

func genMulti(t *rapid.T) duo.Case {
	d := dagen.GenDAG(t, dagen.GenOpts{MaxBlocks: run.N(8, 16), MaxDepth: 2})
	c := duo.Case{DAG: d, Sel: dagen.RecAll(-1)}
	for range d.Blocks {
		c.Split = append(c.Split, 2)
	}
	n := rapid.IntRange(1, 3).Draw(t, "nreqs")
	for i := 0; i < n; i++ {
		r := duo.ReqSpec{DedupKey: i + 1} // own scope and own store per request: no cross-request effects
		if rapid.IntRange(0, 2).Draw(t, "subroot") == 0 {
			r.Root = rapid.IntRange(1, 3).Draw(t, "root")
		}
		switch rapid.IntRange(0, 3).Draw(t, "hold") {
		case 0:
			r.ReqPauseAt = rapid.IntRange(1, 3).Draw(t, "qp")
		case 1:
			r.RespGateAt = rapid.IntRange(1, 3).Draw(t, "sg")
		case 2:
			// the traversal is held inside its block hook (a slow consumer) with further blocks already received
			r.ReqGateAt = rapid.IntRange(1, 3).Draw(t, "qg")
		}
		c.Reqs = append(c.Reqs, r)
	}
	for i := 0; i < n; i++ {
		c.Ops = append(c.Ops, duo.Op{K: "start", R: i})
	}
	m := rapid.IntRange(2, 24).Draw(t, "nops")
	for j := 0; j < m; j++ {
		k := rapid.SampledFrom([]string{"deliver", "deliver", "deliver", "intrude", "intrude", "behind", "qpause", "qunpause", "sgate", "qgate", "tick"}).Draw(t, "opk")
		op := duo.Op{K: k}
		switch k {
		case "deliver":
			op.N = rapid.IntRange(0, 3).Draw(t, "link")
		case "intrude", "behind":
			x := &duo.Intr{Status: rapid.SampledFrom([]int{10, 14, 15, 20, 21, 30, 32, 34}).Draw(t, "status"), Ext: rapid.SampledFrom([]string{"", duo.ExtTriggerError, duo.ExtTriggerUpdate, "other"}).Draw(t, "ext"), NMeta: rapid.IntRange(0, 3).Draw(t, "nmeta")}
			x.NBlocks = rapid.IntRange(0, x.NMeta).Draw(t, "nblocks")
			for i := 0; i < n; i++ {
				if rapid.IntRange(0, 2).Draw(t, "incl") > 0 {
					x.Reqs = append(x.Reqs, i)
				}
			}
			if len(x.Reqs) == 0 {
				x.Reqs = []int{rapid.IntRange(0, n-1).Draw(t, "one")}
			}
			op.X = x
		case "tick":
		default:
			op.R = rapid.IntRange(0, n-1).Draw(t, "opr")
		}
		c.Ops = append(c.Ops, op)
	}
	return c
}

func judgeMulti(c duo.Case) *pbt.Verdict {
	v := &pbt.Verdict{}
	without := c
	without.Ops = nil
	for _, op := range c.Ops {
		if op.K != "intrude" {
			without.Ops = append(without.Ops, op)
		}
	}
	base := duo.Run(outerT, without)
	if base.Skip {
		v.Skip = true
		return v
	}
	got := duo.Run(outerT, c)
	if base.Panic != "" || got.Panic != "" {
		return v.Failf("panic: base=%q with-intruder=%q", base.Panic, got.Panic)
	}
	// requests that are paused and resumed on the requestor are exposed to two listed findings of C06
	// (the re-sent request shares its id with the earlier run); their outcome is schedule-dependent
	for i := range c.Reqs {
		for _, r := range []*duo.Result{base, got} {
			if run.Known("C06-earlier-response-arrives-after-rerequest") && r.StaleAfterRerequest(i) {
				v.Excluded = "C06-earlier-response-arrives-after-rerequest"
				return v
			}
			if run.Known("C06-rerequest-while-earlier-task-active") && r.RerequestWhileActive[i] {
				v.Excluded = "C06-rerequest-while-earlier-task-active"
				return v
			}
		}
	}
	v.NonTrivial = got.IntrudedLive > 0
	if got.IntrudedLive > 0 {
		v.Label("intrusion-while-live")
	}
	if got.IntrudedPaused > 0 {
		v.Label("intrusion-while-paused")
	}
	multi := false
	for _, op := range c.Ops {
		if op.K == "intrude" && op.X != nil && len(op.X.Reqs) >= 2 {
			multi = true
		}
	}
	if multi {
		v.Label("one-message-names-several-requests")
	}
	third := string(scen.ThirdID)
	if n := got.ThirdHookLive; n > 0 {
		return v.Failf("the requestor's response hook was invoked %d times with the third peer as sender for a request still in progress with its own responder", n)
	}
	_ = third
	if n := got.BlockHookPeers[third]; n > 0 {
		return v.Failf("the requestor's block hook was invoked %d times with the third peer as sender", n)
	}
	if n := got.ThirdAsGenuine; n > 0 {
		return v.Failf("the requestor's response hook was handed the third peer's response as if another peer had sent it (%d calls) for a request still in progress", n)
	}
	if n := got.BlockHookSawThird; n > 0 {
		return v.Failf("the requestor's block hook was handed response data that the third peer sent (%d calls)", n)
	}
	if got.SentToThirdLive > 0 {
		return v.Failf("the requestor sent %d message(s) to the third peer in reaction to its message for a request in progress", got.SentToThirdLive)
	}
	if os.Getenv("VERIF_TRACE") != "" {
		for i := range c.Reqs {
			fmt.Printf("--- request %d without ---\n%s\n--- with ---\n%s\n", i, base.Reqs[i].Key(), got.Reqs[i].Key())
		}
		for _, e := range got.Events {
			if e.K != "wire" {
				fmt.Printf("  ev %s r=%d seq=%d %s\n", e.K, e.R, e.Seq, e.Info)
			}
		}
	}
	// (How many cancel / New requests go to the genuine responder is not compared: an API pause placed at a
	// fixed position of the script hits a request that is still running in one run and already complete in the
	// other, depending on how the responder happened to batch its messages. A cancel caused by the third peer
	// ends the request early and shows in the outcomes compared below.)
	for i := range c.Reqs {
		if a, b := base.Reqs[i].Key(), got.Reqs[i].Key(); a != b {
			return v.Failf("request %d's outcome differs once a third peer interferes: %s", i, firstDiff(a, b))
		}
		k := c.Reqs[i].DedupKey
		if x, y := strings.Join(dagen.SortedCids(base.KeyStores[k]), ","), strings.Join(dagen.SortedCids(got.KeyStores[k]), ","); x != y {
			return v.Failf("request %d's stored blocks differ once a third peer interferes", i)
		}
	}
	return v
}

func firstDiff(a, b string) string {
	la, lb := strings.Split(a, "\n"), strings.Split(b, "\n")
	for i := 0; i < len(la) || i < len(lb); i++ {
		var x, y string
		if i < len(la) {
			x = la[i]
		}
		if i < len(lb) {
			y = lb[i]
		}
		if x != y {
			return fmt.Sprintf("line %d (of %d vs %d):\n  without: %s\n  with:    %s", i, len(la), len(lb), x, y)
		}
	}
	return "(no difference)"
}

var defMulti = pbt.Def[duo.Case]{Name: "third-peer-vs-several-requests", Gen: genMulti, Run: judgeMulti}
