package c15

import (
	"fmt"
	"os"
	"testing"

	"pgregory.net/rapid"

	"verif/harness/comp/mqrig"
	"verif/harness/pbt"
)

var run = pbt.Init("C15")
var outerT *testing.T

func TestMain(m *testing.M) { pbt.Main(m, run) }

func gen(t *rapid.T) mqrig.Case {
	pat := rapid.IntRange(0, 7).Draw(t, "pattern")
	if f := os.Getenv("VERIF_PATTERN"); f != "" {
		pat = int(f[0] - '0')
	}
	switch pat {
	case 0:
		return mqrig.GenWindDown(t) // mostly in the class of the successor-release finding: kept small here (C17 uses it most)
	case 1, 2, 3:
		return mqrig.GenFailBurst(t)
	case 4:
		return mqrig.GenBacklog(t)
	}
	return mqrig.Gen(t, run.Thorough())
}

func judge(c mqrig.Case) *pbt.Verdict {
	v := &pbt.Verdict{}
	o := mqrig.Run(outerT, c)
	if o.LateBuildClass() && run.Known("C16-built-after-queue-exit") {
		v.Excluded = "C16-built-after-queue-exit"
		return v
	}
	if o.SuccessorClass() && run.Known("C15-old-queue-releases-successor") {
		v.Excluded = "C15-old-queue-releases-successor"
		return v
	}
	mqrig.Classify(v, c, o)
	v.NonTrivial = o.MultiMsgWithFault || o.ExtPresent
	v.Note = fmt.Sprintf("attachments=%d reservations=%d", len(o.Attachments), len(o.Alloc.Events))
	if o.Panic != "" {
		return v.Failf("panic: %s", o.Panic)
	}
	if len(o.BuiltAfterFailedReservation) > 0 {
		return v.Failf("data queued without a successful reservation: %v", o.BuiltAfterFailedReservation)
	}
	if len(o.Alloc.OverRelease) > 0 {
		return v.Failf("memory released that the peer did not hold (double release): %v", o.Alloc.OverRelease)
	}
	// every transaction fits under both limits and every gate has been opened: if accounting is exact
	// nothing can still be waiting, and nothing can still be held
	if o.FinalPending > 0 {
		return v.Failf("at final quiescence %d transaction(s) / reservation(s) are still waiting for memory although every send gate is open (held: %v, total %d): phantom usage stalls later responses", o.FinalPending, o.FinalAllocated, o.FinalTotal)
	}
	for p, n := range o.FinalAllocated {
		if n != 0 {
			return v.Failf("every queue is idle (nothing building, sending or waiting for memory) yet %d bytes are still accounted to %s", n, p)
		}
	}
	if o.FinalTotal != 0 {
		return v.Failf("every queue is idle yet the allocator reports %d bytes in total", o.FinalTotal)
	}
	return v
}

var def = pbt.Def[mqrig.Case]{Name: "memory-accounting", Gen: gen, Run: judge}

func TestProp(t *testing.T) {
	outerT = t
	pbt.Check(t, run, def, 8000, 500000)
}

func TestReplay(t *testing.T) {
	outerT = t
	pbt.Register(run, def)
	run.Replay(t)
}
