package c01

import (
	"bytes"
	"fmt"

	"pgregory.net/rapid"

	"verif/harness/dagen"
	"verif/harness/pbt"
	"verif/harness/scen"
	"verif/harness/scen/duo"
)

// Soundness with an HONEST responder but a requestor that pauses and resumes (so that response messages
// arrive while the request is offline and are dropped, and re-sent requests are answered with entries that
// carry no bytes), and with a second request running beside it. Whatever happens, every block in the
// requestor's stores must be the genuine bytes of its CID and belong to the DAG, and every delivered node
// must be a node of the true traversal.

func genPaused(t *rapid.T) duo.Case {
	base := scen.GenBase(t, run.N(10, 24))
	c := duo.Case{DAG: base.DAG, Sel: dagen.RecAll(int64(rapid.SampledFrom([]int{-1, -1, 4}).Draw(t, "lim"))), Split: base.Split}
	n := rapid.IntRange(1, 2).Draw(t, "nreqs")
	for i := 0; i < n; i++ {
		r := duo.ReqSpec{}
		if i > 0 && rapid.Bool().Draw(t, "subroot") {
			r.Root = rapid.IntRange(1, 3).Draw(t, "root")
		}
		switch rapid.IntRange(0, 3).Draw(t, "stall") {
		case 0, 1:
			r.ReqPauseAt = rapid.IntRange(1, 5).Draw(t, "qp")
		case 2:
			r.ReqGateAt = rapid.IntRange(1, 4).Draw(t, "qg")
		}
		c.Reqs = append(c.Reqs, r)
	}
	for i := 0; i < n; i++ {
		c.Ops = append(c.Ops, duo.Op{K: "start", R: i})
	}
	c.Ops = append(c.Ops, duo.GenOps(t, n, 24, []string{"deliver", "deliver", "deliver", "deliver", "qpause", "qunpause", "qunpause", "qgate", "tick"})...)
	return c
}

func judgePaused(c duo.Case) *pbt.Verdict {
	v := &pbt.Verdict{}
	r := duo.Run(outerT, c)
	if r.Skip {
		v.Skip = true
		return v
	}
	if r.Panic != "" {
		return v.Failf("panic: %s", r.Panic)
	}
	paused := false
	for _, s := range r.Snapshots {
		for _, st := range s.ReqStates {
			if st == "paused" {
				paused = true
			}
		}
	}
	v.NonTrivial = paused
	if paused {
		v.Label("requestor-paused-mid-exchange")
	}
	// stored bytes
	for cc, data := range r.Store {
		want, ok := r.B.Data[cc]
		if !ok {
			return v.Failf("the requestor's store holds %s, which is not a block of the DAG", cc)
		}
		if !bytes.Equal(want, data) {
			sum, _ := cc.Prefix().Sum(data)
			return v.Failf("the requestor's store holds %d bytes under %s that are not that block's bytes (they hash to %s)", len(data), cc, sum)
		}
	}
	// delivered nodes: members of the true traversal from the request's root
	for i, q := range r.Reqs {
		if !q.Started {
			continue
		}
		b2 := *r.B
		b2.Root = duo.RootOf(r.B, c.Reqs[i].Root)
		full := dagen.RefFull(&b2, dagen.Canonical(c.Sel.Node()))
		if full.Err != nil {
			continue // (traversal larger than the generated domain: no complete truth to compare with)
		}
		ok := map[string]bool{}
		for _, vis := range full.Visits {
			ok[vis.Key()] = true
		}
		for _, vis := range q.Visits {
			if !ok[vis.Key()] {
				return v.Failf("request %d delivered a node that is not part of the true traversal: %s", i, fmt.Sprint(vis.Key()))
			}
		}
	}
	return v
}

var defPaused = pbt.Def[duo.Case]{Name: "honest-responder-paused-requestor", Gen: genPaused, Run: judgePaused}
