package c01

import (
	"bytes"
	"fmt"
	"testing"

	blocks "github.com/ipfs/go-block-format"
	"github.com/ipfs/go-cid"
	cidlink "github.com/ipld/go-ipld-prime/linking/cid"
	mh "github.com/multiformats/go-multihash"
	"pgregory.net/rapid"

	"github.com/ipfs/go-graphsync"
	gsmsg "github.com/ipfs/go-graphsync/message"

	"verif/harness/dagen"
	"verif/harness/pbt"
	"verif/harness/scen"
	"verif/harness/sim"
)

var run = pbt.Init("C01")
var outerT *testing.T

func TestMain(m *testing.M) { pbt.Main(m, run) }

type Mut struct {
	K int `json:"k"`
	A int `json:"a"`
	B int `json:"b"`
}

type Case struct {
	Base    scen.Base `json:"base"` // split bit0 = what the requestor holds; the "responder" is scripted
	Evil    dagen.DAG `json:"evil"` // unrelated DAG whose blocks the adversary may inject
	Trusted bool      `json:"trusted_storage"`
	Chunks  []int     `json:"chunks"` // entries per honest message, cycled
	Muts    []Mut     `json:"muts"`
}

const nMutKinds = 14

func gen(t *rapid.T) Case {
	c := Case{Base: scen.GenBase(t, run.N(10, 24))}
	c.Evil = dagen.GenDAG(t, dagen.GenOpts{MaxBlocks: 4, MaxDepth: 1})
	c.Trusted = rapid.Bool().Draw(t, "trusted")
	c.Chunks = rapid.SliceOfN(rapid.IntRange(1, 4), 1, 4).Draw(t, "chunks")
	n := rapid.IntRange(0, 8).Draw(t, "nmuts")
	for i := 0; i < n; i++ {
		c.Muts = append(c.Muts, Mut{K: rapid.IntRange(0, nMutKinds-1).Draw(t, "mk"), A: rapid.IntRange(0, 40).Draw(t, "ma"), B: rapid.IntRange(0, 40).Draw(t, "mb")})
	}
	return c
}

type entry struct {
	c cid.Cid
	a graphsync.LinkAction
}
type sblock struct {
	pref cid.Prefix
	data []byte
}
type smsg struct {
	entries []entry
	blocks  []sblock
	status  graphsync.ResponseStatusCode
}

var actions = []graphsync.LinkAction{graphsync.LinkActionPresent, graphsync.LinkActionDuplicateNotSent, graphsync.LinkActionMissing, graphsync.LinkActionDuplicateDAGSkipped}
var statuses = []graphsync.ResponseStatusCode{graphsync.PartialResponse, graphsync.RequestCompletedFull, graphsync.RequestCompletedPartial, graphsync.RequestFailedUnknown, graphsync.RequestPaused, graphsync.RequestRejected, graphsync.RequestAcknowledged}

func honest(b *dagen.Built, full *dagen.Ref, chunks []int) []*smsg {
	var msgs []*smsg
	cur := &smsg{status: graphsync.PartialResponse}
	ci := 0
	sent := map[cid.Cid]bool{}
	for _, l := range full.Loads {
		cur.entries = append(cur.entries, entry{l.Cid, graphsync.LinkActionPresent})
		if !sent[l.Cid] {
			sent[l.Cid] = true
			cur.blocks = append(cur.blocks, sblock{l.Cid.Prefix(), b.Data[l.Cid]})
		}
		if len(cur.entries) >= chunks[ci%len(chunks)] {
			msgs = append(msgs, cur)
			cur = &smsg{status: graphsync.PartialResponse}
			ci++
		}
	}
	cur.status = graphsync.RequestCompletedFull
	msgs = append(msgs, cur)
	return msgs
}

// mutate applies the generated mutations; returns how many actually changed something.
func mutate(msgs []*smsg, muts []Mut, pool []cid.Cid, poolData map[cid.Cid][]byte) ([]*smsg, int) {
	applied := 0
	locate := func(i int) (*smsg, int) {
		total := 0
		for _, m := range msgs {
			total += len(m.entries)
		}
		if total == 0 {
			return nil, 0
		}
		i = i % total
		for _, m := range msgs {
			if i < len(m.entries) {
				return m, i
			}
			i -= len(m.entries)
		}
		return nil, 0
	}
	locBlock := func(i int) (*smsg, int) {
		total := 0
		for _, m := range msgs {
			total += len(m.blocks)
		}
		if total == 0 {
			return nil, 0
		}
		i = i % total
		for _, m := range msgs {
			if i < len(m.blocks) {
				return m, i
			}
			i -= len(m.blocks)
		}
		return nil, 0
	}
	for _, mu := range muts {
		if len(msgs) == 0 {
			break
		}
		switch mu.K {
		case 0: // swap two metadata entries
			m1, i1 := locate(mu.A)
			m2, i2 := locate(mu.B)
			if m1 != nil && m2 != nil && (m1 != m2 || i1 != i2) {
				m1.entries[i1], m2.entries[i2] = m2.entries[i2], m1.entries[i1]
				applied++
			}
		case 1: // drop an entry
			if m, i := locate(mu.A); m != nil {
				m.entries = append(m.entries[:i:i], m.entries[i+1:]...)
				applied++
			}
		case 2: // duplicate an entry
			if m, i := locate(mu.A); m != nil {
				m.entries = append(m.entries[:i+1:i+1], m.entries[i:]...)
				applied++
			}
		case 3: // relink an entry to another known cid (true DAG, evil DAG)
			if m, i := locate(mu.A); m != nil && len(pool) > 0 {
				m.entries[i].c = pool[mu.B%len(pool)]
				applied++
			}
		case 4: // change the action
			if m, i := locate(mu.A); m != nil {
				m.entries[i].a = actions[mu.B%len(actions)]
				applied++
			}
		case 5: // omit a block
			if m, i := locBlock(mu.A); m != nil {
				m.blocks = append(m.blocks[:i:i], m.blocks[i+1:]...)
				applied++
			}
		case 6: // move a block to another message
			if m, i := locBlock(mu.A); m != nil {
				blk := m.blocks[i]
				m.blocks = append(m.blocks[:i:i], m.blocks[i+1:]...)
				dst := msgs[mu.B%len(msgs)]
				dst.blocks = append(dst.blocks, blk)
				applied++
			}
		case 7: // right prefix, wrong bytes
			if m, i := locBlock(mu.A); m != nil {
				d := append([]byte(nil), m.blocks[i].data...)
				if len(d) == 0 {
					d = []byte{0}
				} else {
					d[mu.B%len(d)] ^= 0x41
				}
				m.blocks[i].data = d
				applied++
			}
		case 8: // wrong prefix, right bytes
			if m, i := locBlock(mu.A); m != nil {
				p := m.blocks[i].pref
				switch mu.B % 3 {
				case 0:
					p.Codec = cid.Raw + cid.DagCBOR - p.Codec
				case 1:
					p.MhType, p.MhLength = mh.SHA2_512, 64
				default:
					p.MhType, p.MhLength = mh.IDENTITY, -1
				}
				m.blocks[i].pref = p
				applied++
			}
		case 9: // attach a genuine but unrequested / foreign block
			if len(pool) > 0 {
				c := pool[mu.B%len(pool)]
				m := msgs[mu.A%len(msgs)]
				m.blocks = append(m.blocks, sblock{c.Prefix(), poolData[c]})
				applied++
			}
		case 10: // replay a whole message
			m := msgs[mu.A%len(msgs)]
			cp := &smsg{entries: append([]entry(nil), m.entries...), blocks: append([]sblock(nil), m.blocks...), status: m.status}
			at := mu.B % (len(msgs) + 1)
			msgs = append(msgs[:at:at], append([]*smsg{cp}, msgs[at:]...)...)
			applied++
		case 11: // put a different status on a message
			msgs[mu.A%len(msgs)].status = statuses[mu.B%len(statuses)]
			applied++
		case 12: // merge a message into its successor
			if len(msgs) > 1 {
				i := mu.A % (len(msgs) - 1)
				msgs[i+1].entries = append(append([]entry(nil), msgs[i].entries...), msgs[i+1].entries...)
				msgs[i+1].blocks = append(append([]sblock(nil), msgs[i].blocks...), msgs[i+1].blocks...)
				msgs = append(msgs[:i:i], msgs[i+1:]...)
				applied++
			}
		case 13: // relink to a cid nobody has
			if m, i := locate(mu.A); m != nil {
				c, _ := cid.Prefix{Version: 1, Codec: cid.Raw, MhType: mh.SHA2_256, MhLength: 32}.Sum([]byte(fmt.Sprintf("nowhere-%d", mu.B)))
				m.entries[i].c = c
				applied++
			}
		}
	}
	return msgs, applied
}

func (m *smsg) build(id graphsync.RequestID) (gsmsg.GraphSyncMessage, error) {
	var md []gsmsg.GraphSyncLinkMetadatum
	for _, e := range m.entries {
		md = append(md, gsmsg.GraphSyncLinkMetadatum{Link: e.c, Action: e.a})
	}
	blks := map[cid.Cid]blocks.Block{}
	for _, b := range m.blocks {
		c, err := b.pref.Sum(b.data)
		if err != nil {
			return gsmsg.GraphSyncMessage{}, err
		}
		blk, err := blocks.NewBlockWithCid(b.data, c)
		if err != nil {
			return gsmsg.GraphSyncMessage{}, err
		}
		blks[c] = blk
	}
	resp := gsmsg.NewResponse(id, m.status, md)
	return gsmsg.NewMessage(nil, map[graphsync.RequestID]gsmsg.GraphSyncResponse{id: resp}, blks), nil
}

func judge(c Case) *pbt.Verdict {
	v := &pbt.Verdict{}
	if !c.Base.Sel.WellFormed() {
		v.Skip = true
		return v
	}
	b, err := c.Base.DAG.Build()
	if err != nil {
		v.Skip = true
		return v
	}
	evil, err := c.Evil.Build()
	if err != nil {
		v.Skip = true
		return v
	}
	sel := dagen.Canonical(c.Base.Sel.Node())
	full := dagen.RefFull(b, sel)
	if full.Err != nil {
		v.Skip = true
		return v
	}
	// truth: path -> visit, reachable block set
	V := map[string]dagen.Visit{}
	for _, vis := range full.Visits {
		V[vis.Path] = vis
	}
	B := map[cid.Cid]bool{}
	for _, l := range full.Loads {
		B[l.Cid] = true
	}
	split := append(dagen.Split(nil), c.Base.Split...)
	for len(split) < len(b.Order) {
		split = append(split, 0)
	}
	reqStore, _ := b.Stores(split)
	var pool []cid.Cid
	poolData := map[cid.Cid][]byte{}
	for _, cc := range b.Order {
		pool = append(pool, cc)
		poolData[cc] = b.Data[cc]
	}
	for _, cc := range evil.Order {
		if _, dup := poolData[cc]; !dup {
			pool = append(pool, cc)
			poolData[cc] = evil.Data[cc]
		}
	}
	chunks := c.Chunks
	if len(chunks) == 0 {
		chunks = []int{2}
	}
	script, applied := mutate(honest(b, full, chunks), c.Muts, pool, poolData)

	var visits []dagen.Visit
	var errs []error
	var store *sim.Store
	requestSent := false
	var initial map[cid.Cid][]byte
	ro := sim.Run(outerT, func(w *sim.World) {
		store = sim.NewStore(reqStore, c.Trusted)
		initial = store.Snapshot()
		rq := w.AddInstance(scen.ReqID, store)
		resp := w.AddScripted(scen.RespID)
		res := w.Request(rq, scen.RespID, cidlink.Link{Cid: b.Root}, c.Base.Sel.Node())
		w.Quiesce()
		var id graphsync.RequestID
		for _, e := range resp.Received {
			for _, r := range e.Msg.Requests() {
				if r.Type() == graphsync.RequestTypeNew {
					id, requestSent = r.ID(), true
				}
			}
		}
		if requestSent {
			for _, m := range script {
				msg, err := m.build(id)
				if err != nil {
					continue // not wire-expressible (hash function refused): skip this message
				}
				if err := w.Net.Inject(scen.RespID, scen.ReqID, msg); err != nil {
					continue
				}
				w.Quiesce()
			}
		}
		res.Cancel()
		w.Quiesce()
		visits, errs, _, _ = res.Snapshot()
	})
	if ro.Panic != "" {
		return v.Failf("panic: %s", ro.Panic)
	}
	_ = errs
	// oracle
	for i, got := range visits {
		want, ok := V[got.Path]
		if !ok {
			return v.Failf("delivered node %d at path %q which the true traversal never visits: %s", i, got.Path, got.NodePrint)
		}
		if got.NodePrint != want.NodePrint {
			return v.Failf("delivered node %d at path %q is not the DAG's node there: got %s want %s", i, got.Path, got.NodePrint, want.NodePrint)
		}
		if got.LastPath != want.LastPath || got.LastLink != want.LastLink {
			return v.Failf("delivered node %d at %q reports last block %q@%s, truth %q@%s", i, got.Path, got.LastPath, got.LastLink, want.LastPath, want.LastLink)
		}
	}
	for i, wc := range store.Writes {
		if !B[wc] {
			return v.Failf("write %d stores block %s which is not reachable from the root by the selector", i, wc)
		}
	}
	final := store.Snapshot()
	for cc, d := range final {
		if _, was := initial[cc]; was {
			if !bytes.Equal(d, initial[cc]) && !bytes.Equal(d, b.Data[cc]) {
				return v.Failf("block %s overwritten with foreign bytes", cc)
			}
			if !bytes.Equal(d, b.Data[cc]) {
				return v.Failf("block %s now holds bytes that are not the DAG's", cc)
			}
			continue
		}
		if !B[cc] {
			return v.Failf("store gained block %s which is not selector-reachable content of the DAG", cc)
		}
		if !bytes.Equal(d, b.Data[cc]) {
			return v.Failf("store holds bytes under %s that are not that block's content", cc)
		}
		sum, _ := cc.Prefix().Sum(d)
		if !sum.Equals(cc) {
			return v.Failf("stored bytes under %s do not hash to it", cc)
		}
	}
	consumedRemote := len(store.Writes) > 0
	for _, e := range errs {
		if _, ok := e.(graphsync.RemoteIncorrectResponseError); ok {
			consumedRemote = true
		}
	}
	if requestSent {
		v.Label("request-sent")
	}
	if applied > 0 {
		v.Label("mutated-transcript")
	}
	if c.Trusted {
		v.Label("trusted-storage")
	} else {
		v.Label("untrusted-storage")
	}
	if consumedRemote {
		v.Label("remote-items-consumed")
	}
	v.NonTrivial = applied > 0 && requestSent && consumedRemote
	v.Note = fmt.Sprintf("sel=%s loads=%d script=%d msgs muts=%d writes=%d delivered=%d", c.Base.Sel, len(full.Loads), len(script), applied, len(store.Writes), len(visits))
	return v
}

var def = pbt.Def[Case]{Name: "adversarial-responder", Gen: gen, Run: judge}

func TestProp(t *testing.T) {
	outerT = t
	pbt.Check(t, run, def, 16000, 800000)
	pbt.Check(t, run, defPaused, 6000, 250000)
}

func TestReplay(t *testing.T) {
	outerT = t
	pbt.Register(run, def)
	pbt.Register(run, defPaused)
	run.Replay(t)
}
