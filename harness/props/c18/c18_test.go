package c18

import (
	"fmt"
	"strings"
	"testing"
	"testing/synctest"

	"pgregory.net/rapid"

	"github.com/ipfs/go-graphsync/notifications"

	"verif/harness/pbt"
)

var run = pbt.Init("C18")
var outerT *testing.T

func TestMain(m *testing.M) { pbt.Main(m, run) }

type Op struct {
	K     string `json:"k"` // sub unsub pub close shutdown sync
	Topic int    `json:"topic,omitempty"`
	Sub   int    `json:"sub,omitempty"`
}

type Case struct {
	Ops []Op `json:"ops"`
}

const nTopics, nSubs = 3, 3

func gen(t *rapid.T) Case {
	n := rapid.IntRange(1, 40).Draw(t, "nops")
	var c Case
	for i := 0; i < n; i++ {
		var op Op
		switch k := rapid.IntRange(0, 19).Draw(t, "k"); {
		case k < 6:
			op.K = "sub"
		case k < 12:
			op.K = "pub"
		case k < 14:
			op.K = "unsub"
		case k < 16:
			op.K = "close"
		case k < 19:
			op.K = "sync"
		default:
			op.K = "shutdown"
		}
		op.Topic = rapid.IntRange(0, nTopics-1).Draw(t, "topic")
		op.Sub = rapid.IntRange(0, nSubs-1).Draw(t, "sub")
		c.Ops = append(c.Ops, op)
	}
	return c
}

type rec struct {
	id  int
	log []string // "n:<topic>:<event>" / "c:<topic>"
}

func (r *rec) OnNext(t notifications.Topic, e notifications.Event) {
	r.log = append(r.log, fmt.Sprintf("n:%v:%v", t, e))
}
func (r *rec) OnClose(t notifications.Topic) { r.log = append(r.log, fmt.Sprintf("c:%v", t)) }

func judge(c Case) *pbt.Verdict {
	v := &pbt.Verdict{}
	var fail string
	multi, interleaved := false, false
	func() {
		defer func() {
			if r := recover(); r != nil {
				s := fmt.Sprint(r)
				if strings.Contains(s, "deadlock") {
					if fail == "" {
						fail = "publisher goroutine still blocked after Shutdown (bubble could not exit)"
					}
					return
				}
				panic(r)
			}
		}()
		synctest.Test(outerT, func(t *testing.T) {
			p := notifications.NewPublisher()
			p.Startup()
			subs := make([]*rec, nSubs)
			for i := range subs {
				subs[i] = &rec{id: i}
			}
			// model
			active := map[[2]int]bool{} // (topic, sub)
			want := make([][]string, nSubs)
			down := false
			evn := 0
			compare := func(step int) {
				synctest.Wait()
				for i := range subs {
					// compare per topic, in order
					for tp := 0; tp < nTopics; tp++ {
						g := filter(subs[i].log, tp)
						w := filter(want[i], tp)
						if strings.Join(g, ",") != strings.Join(w, ",") && fail == "" {
							fail = fmt.Sprintf("after op %d: subscriber %d topic %d received %v, want %v", step, i, tp, g, w)
						}
					}
				}
			}
			for step, op := range c.Ops {
				switch op.K {
				case "sub":
					ok := p.Subscribe(op.Topic, subs[op.Sub])
					if ok == down && fail == "" {
						fail = fmt.Sprintf("op %d: Subscribe returned %v with shutdown=%v", step, ok, down)
					}
					if !down {
						n := 0
						for s := 0; s < nSubs; s++ {
							if active[[2]int{op.Topic, s}] {
								n++
							}
						}
						if n >= 1 && !active[[2]int{op.Topic, op.Sub}] {
							multi = true
						}
						active[[2]int{op.Topic, op.Sub}] = true
					}
				case "unsub":
					ok := p.Unsubscribe(subs[op.Sub])
					if ok == down && fail == "" {
						fail = fmt.Sprintf("op %d: Unsubscribe returned %v with shutdown=%v", step, ok, down)
					}
					if !down {
						for tp := 0; tp < nTopics; tp++ {
							if active[[2]int{tp, op.Sub}] {
								delete(active, [2]int{tp, op.Sub})
								want[op.Sub] = append(want[op.Sub], fmt.Sprintf("c:%d", tp))
								if multi {
									interleaved = true
								}
							}
						}
					}
				case "pub":
					evn++
					p.Publish(op.Topic, evn)
					if !down {
						for s := 0; s < nSubs; s++ {
							if active[[2]int{op.Topic, s}] {
								want[s] = append(want[s], fmt.Sprintf("n:%d:%d", op.Topic, evn))
							}
						}
					}
				case "close":
					p.Close(op.Topic)
					if !down {
						for s := 0; s < nSubs; s++ {
							if active[[2]int{op.Topic, s}] {
								delete(active, [2]int{op.Topic, s})
								want[s] = append(want[s], fmt.Sprintf("c:%d", op.Topic))
								if multi {
									interleaved = true
								}
							}
						}
					}
				case "shutdown":
					p.Shutdown()
					if !down {
						down = true
						for k := range active {
							want[k[1]] = append(want[k[1]], fmt.Sprintf("c:%d", k[0]))
						}
						active = map[[2]int]bool{}
					}
				case "sync":
					compare(step)
				}
			}
			compare(len(c.Ops))
			p.Shutdown()
			synctest.Wait()
		})
	}()
	v.Fail = fail
	if multi {
		v.Label("two-subscribers-on-a-topic")
	}
	v.NonTrivial = multi && interleaved
	return v
}

func filter(log []string, topic int) []string {
	var out []string
	for _, l := range log {
		if strings.HasPrefix(l, fmt.Sprintf("n:%d:", topic)) || l == fmt.Sprintf("c:%d", topic) {
			out = append(out, l)
		}
	}
	return out
}

var def = pbt.Def[Case]{Name: "publisher-model", Gen: gen, Run: judge}

func TestProp(t *testing.T) {
	outerT = t
	pbt.Check(t, run, def, 40000, 3000000)
	pbt.Check(t, run, defRace, 8000, 300000)
}

func TestReplay(t *testing.T) {
	outerT = t
	pbt.Register(run, def)
	pbt.Register(run, defRace)
	run.Replay(t)
}
