package c18

import (
	"fmt"
	"sync"
	"testing"
	"testing/synctest"

	"pgregory.net/rapid"

	"github.com/ipfs/go-graphsync/notifications"

	"verif/harness/pbt"
)

// Callers on several goroutines: Subscribe / Publish calls racing one Shutdown call. Whatever the
// interleaving, a Subscribe that returned true is a subscription and must be told exactly once that
// it ended; one that returned false must hear nothing; no event arrives after the close.

type RaceCase struct {
	Subscribers int   `json:"subscribers"` // goroutines calling Subscribe (each its own subscriber, topic = i % 2)
	Publishers  int   `json:"publishers"`
	Before      []int `json:"before"` // subscriber indices that subscribe before the race starts
	Rounds      int   `json:"rounds"`
}

func genRace(t *rapid.T) RaceCase {
	c := RaceCase{Subscribers: rapid.IntRange(2, 12).Draw(t, "subs"), Publishers: rapid.IntRange(0, 3).Draw(t, "pubs"), Rounds: rapid.IntRange(2, 6).Draw(t, "rounds")}
	for i := 0; i < c.Subscribers; i++ {
		if rapid.IntRange(0, 3).Draw(t, "before") == 0 {
			c.Before = append(c.Before, i)
		}
	}
	return c
}

type lockedRec struct {
	mu  sync.Mutex
	log []string
}

func (r *lockedRec) OnNext(t notifications.Topic, e notifications.Event) {
	r.mu.Lock()
	r.log = append(r.log, fmt.Sprintf("n:%v", t))
	r.mu.Unlock()
}
func (r *lockedRec) OnClose(t notifications.Topic) {
	r.mu.Lock()
	r.log = append(r.log, fmt.Sprintf("c:%v", t))
	r.mu.Unlock()
}

func judgeRace(c RaceCase) *pbt.Verdict {
	v := &pbt.Verdict{NonTrivial: true}
	var fail string
	sawTrue, sawFalse := false, false
	func() {
		defer func() {
			if r := recover(); r != nil && fail == "" {
				fail = fmt.Sprintf("bubble did not finish: %v", r)
			}
		}()
		for round := 0; round < c.Rounds && fail == ""; round++ {
			synctest.Test(outerT, func(t *testing.T) {
				p := notifications.NewPublisher()
				p.Startup()
				recs := make([]*lockedRec, c.Subscribers)
				ok := make([]bool, c.Subscribers)
				early := map[int]bool{}
				for i := range recs {
					recs[i] = &lockedRec{}
				}
				for _, i := range c.Before {
					early[i] = true
					ok[i] = p.Subscribe(i%2, recs[i])
				}
				synctest.Wait()
				start := make(chan struct{})
				var wg sync.WaitGroup
				for i := 0; i < c.Subscribers; i++ {
					if early[i] {
						continue
					}
					wg.Add(1)
					go func(i int) {
						defer wg.Done()
						<-start
						ok[i] = p.Subscribe(i%2, recs[i])
					}(i)
				}
				for j := 0; j < c.Publishers; j++ {
					wg.Add(1)
					go func(j int) {
						defer wg.Done()
						<-start
						p.Publish(j%2, j)
					}(j)
				}
				wg.Add(1)
				go func() {
					defer wg.Done()
					<-start
					p.Shutdown()
				}()
				synctest.Wait()
				close(start)
				wg.Wait()
				synctest.Wait()
				for i, r := range recs {
					r.mu.Lock()
					closes, afterClose := 0, 0
					for _, l := range r.log {
						if l[0] == 'c' {
							closes++
						} else if closes > 0 {
							afterClose++
						}
					}
					r.mu.Unlock()
					if ok[i] {
						sawTrue = true
					} else {
						sawFalse = true
					}
					switch {
					case ok[i] && closes != 1 && fail == "":
						fail = fmt.Sprintf("Subscribe returned true for subscriber %d (racing Shutdown) but it was told %d times that its subscription ended (log %v)", i, closes, r.log)
					case !ok[i] && len(r.log) > 0 && fail == "":
						fail = fmt.Sprintf("Subscribe returned false for subscriber %d yet it received %v", i, r.log)
					case afterClose > 0 && fail == "":
						fail = fmt.Sprintf("subscriber %d received %d events after it was told the subscription ended", i, afterClose)
					}
				}
			})
		}
	}()
	if sawTrue && sawFalse {
		v.Label("shutdown-fell-between-subscribe-calls")
	}
	v.Fail = fail
	return v
}

var defRace = pbt.Def[RaceCase]{Name: "callers-racing-shutdown", Gen: genRace, Run: judgeRace}
