package c02

import (
	"fmt"
	"os"
	"sort"
	"strings"
	"testing"

	"github.com/ipfs/go-cid"
	"github.com/ipld/go-ipld-prime"
	cidlink "github.com/ipld/go-ipld-prime/linking/cid"
	"github.com/libp2p/go-libp2p/core/peer"
	"pgregory.net/rapid"

	"github.com/ipfs/go-graphsync"

	"verif/harness/dagen"
	"verif/harness/pbt"
	"verif/harness/sim"
)

var run = pbt.Init("C02")
var outerT *testing.T

func TestMain(m *testing.M) { pbt.Main(m, run) }

type Case struct {
	DAG   dagen.DAG   `json:"dag"`
	Sel   *dagen.Sel  `json:"sel"`
	Split dagen.Split `json:"split"`
	// PauseAt > 0: the requestor's block hook pauses the request at its n-th block and the request is resumed
	// once everything is quiet; what is delivered, reported and stored must be what the uninterrupted
	// reference traversal gives
	PauseAt int `json:"pause_at,omitempty"`
}

// known finding: the requestor's record of its local history is keyed by path; a selector that loads one
// path twice (overlapping union members) cannot be replayed against the second response after a resume
const kTwice = "C02-path-loaded-twice-then-resume"

func gen(t *rapid.T) Case {
	d := dagen.GenDAG(t, dagen.GenOpts{MaxBlocks: run.N(12, 30), MaxDepth: 2})
	sel := dagen.GenTraversalSel(t)
	c := Case{DAG: d, Sel: sel, Split: dagen.GenSplit(t, len(d.Blocks))}
	if rapid.IntRange(0, 3).Draw(t, "haspause") == 0 {
		c.PauseAt = rapid.IntRange(1, 6).Draw(t, "pauseat")
	}
	return c
}

var (
	reqID  = peer.ID("requestor-peer")
	respID = peer.ID("responder-peer")
)

type outcome struct {
	visits []dagen.Visit
	errs   []error
	rc, ec bool
	store  map[cid.Cid][]byte
	hung   bool
	paused bool
	panicS string
	wire   int
}

func exchange(b *dagen.Built, sel *dagen.Sel, reqStore, respStore map[cid.Cid][]byte, pauseAt int) outcome {
	var o outcome
	ro := sim.Run(outerT, func(w *sim.World) {
		rq := w.AddInstance(reqID, sim.NewStore(reqStore, true))
		rs := w.AddInstance(respID, sim.NewStore(respStore, true))
		// cooperative responder: accepts every request (selector validation is C08's subject)
		rs.GS.RegisterIncomingRequestHook(func(p peer.ID, r graphsync.RequestData, ha graphsync.IncomingRequestHookActions) {
			ha.ValidateRequest()
		})
		nblk := 0
		var paused []graphsync.RequestID
		if pauseAt > 0 {
			rq.GS.RegisterIncomingBlockHook(func(_ peer.ID, rd graphsync.ResponseData, _ graphsync.BlockData, ha graphsync.IncomingBlockHookActions) {
				nblk++
				if nblk == pauseAt {
					ha.PauseRequest()
					paused = append(paused, rd.RequestID())
				}
			})
		}
		res := w.Request(rq, respID, cidlink.Link{Cid: b.Root}, sel.Node())
		w.Quiesce()
		for _, id := range paused {
			o.paused = true
			_ = rq.GS.Unpause(w.Ctx, id)
			w.Quiesce()
		}
		o.visits, o.errs, o.rc, o.ec = res.Snapshot()
		o.store = rq.Store.Snapshot()
		o.wire = len(w.Net.Sent)
		if os.Getenv("VERIF_DEBUG") != "" {
			fmt.Print(w.Net.Transcript())
			for i, c := range b.Cids {
				fmt.Printf("block %d = %s\n", i, c)
			}
		}
	})
	o.hung, o.panicS = ro.Hung, ro.Panic
	return o
}

func judge(c Case) *pbt.Verdict {
	v := &pbt.Verdict{}
	if !c.Sel.WellFormed() {
		v.Skip = true
		return v
	}
	b, err := c.DAG.Build()
	if err != nil {
		v.Skip = true
		return v
	}
	split := append(dagen.Split(nil), c.Split...)
	for len(split) < len(b.Order) {
		split = append(split, 2)
	}
	reqStore, respStore := b.Stores(split)
	// both peers must traverse the selector as it travels on the wire (dag-cbor canonical map order)
	sel := dagen.Canonical(c.Sel.Node())
	ref := dagen.RefExchange(b.Root, reqStore, respStore, sel)
	needsRemote := ref.LocalPrefix < len(ref.Loads)
	if needsRemote && ref.RootMissingOnResponder {
		// domain note: the responder is given the root whenever anything is needed from it
		respStore[b.Root] = b.Data[b.Root]
		ref = dagen.RefExchange(b.Root, reqStore, respStore, sel)
		v.Label("root-given-to-responder")
	}
	if ref.Err != nil {
		v.Skip = true // selector error on this DAG (e.g. index into a map): not C02's subject
		return v
	}
	// known-finding classes, computed from the generated case alone
	if k := knownClass(b.Root, sel, ref, respStore, c.PauseAt > 0); k != "" && run.Known(k) {
		v.Excluded = k
		return v
	}

	if c.PauseAt > 0 && ref.PathLoadedTwice() && run.Known(kTwice) {
		v.Excluded = kTwice
		return v
	}
	o := exchange(b, c.Sel, reqStore, respStore, c.PauseAt)
	describe(v, c, b, ref, reqStore, respStore)
	if o.paused {
		v.Label("paused-and-resumed")
	}
	if o.panicS != "" {
		return v.Failf("panic: %s", o.panicS)
	}
	if !o.rc || !o.ec {
		return v.Failf("channels not closed at final quiescence (resp=%v err=%v)", o.rc, o.ec)
	}
	if ref.LocalPrefix == len(ref.Loads) && sameVisits(o.visits, dagen.RefExchange(b.Root, reqStore, respStore, c.Sel.Node()).Visits) {
		// no responder involved: the caller's own field order is an equally valid local traversal
		ref = dagen.RefExchange(b.Root, reqStore, respStore, c.Sel.Node())
	}
	// (1) delivered sequence
	if len(o.visits) != len(ref.Visits) {
		return v.Failf("delivered %d nodes, reference %d; first diff: %s; errs=%v", len(o.visits), len(ref.Visits), firstDiff(o.visits, ref.Visits), o.errs)
	}
	for i := range ref.Visits {
		if o.visits[i].Key() != ref.Visits[i].Key() {
			return v.Failf("node %d differs: got %s want %s", i, o.visits[i].Key(), ref.Visits[i].Key())
		}
	}
	// (2) missing-block errors: exactly the links neither side can supply
	var got, want []string
	for _, e := range o.errs {
		me, ok := e.(graphsync.RemoteMissingBlockErr)
		if !ok {
			return v.Failf("unexpected error kind %T: %v", e, e)
		}
		got = append(got, me.Path.String()+"@"+me.Link.String())
	}
	for _, m := range ref.Missing {
		want = append(want, m.Path+"@"+m.Cid.String())
	}
	sort.Strings(got)
	sort.Strings(want)
	if strings.Join(got, ",") != strings.Join(want, ",") {
		return v.Failf("missing-block errors differ: got %v want %v", got, want)
	}
	// (3) store = initial ∪ blocks resolved from the responder
	wantStore := map[cid.Cid]bool{}
	for c := range reqStore {
		wantStore[c] = true
	}
	for c := range ref.FromRemote {
		wantStore[c] = true
	}
	for c := range wantStore {
		if _, ok := o.store[c]; !ok {
			return v.Failf("block %s obtained from responder not stored", c)
		}
	}
	for c, d := range o.store {
		if !wantStore[c] {
			return v.Failf("unexpected block %s in requestor store", c)
		}
		if string(d) != string(b.Data[c]) {
			return v.Failf("stored bytes for %s differ from the DAG's", c)
		}
	}
	return v
}

func sameVisits(a, b []dagen.Visit) bool {
	if len(a) != len(b) {
		return false
	}
	for i := range a {
		if a[i].Key() != b[i].Key() {
			return false
		}
	}
	return true
}

func firstDiff(a, b []dagen.Visit) string {
	for i := 0; i < len(a) && i < len(b); i++ {
		if a[i].Key() != b[i].Key() {
			return fmt.Sprintf("#%d got %s want %s", i, a[i].Key(), b[i].Key())
		}
	}
	if len(a) < len(b) {
		return fmt.Sprintf("#%d missing %s", len(a), b[len(a)].Key())
	}
	if len(b) < len(a) {
		return fmt.Sprintf("#%d extra %s", len(b), a[len(b)].Key())
	}
	return "none"
}

// knownClass returns the key of a known-finding class the case belongs to ("" if none).
func knownClass(root cid.Cid, sel ipld.Node, ref *dagen.Ref, respStore map[cid.Cid][]byte, anyResumePoint bool) string {
	// K2: the requestor asks the responder to skip as many leading blocks as it
	// loaded locally (K), but the responder counts link traversals of its own
	// walk. The defect manifests exactly when a block the requestor needs from
	// the responder is first traversed by the responder at an index <= K: it is
	// withheld, and later occurrences are deduplicated. A request that is paused and
	// resumed asks again with K = the loads it has done so far (any K up to the end).
	if ref.LocalPrefix >= len(ref.Loads) {
		return ""
	}
	rr := dagen.RefStore(root, respStore, sel, 0)
	if anyResumePoint {
		// the count may be taken at any point of the requestor's walk: the two sides' units agree only if
		// the responder's own walk visits the same links in the same order
		same := len(rr.Loads) == len(ref.Loads)
		for i := 0; same && i < len(rr.Loads); i++ {
			same = rr.Loads[i].Cid.Equals(ref.Loads[i].Cid)
		}
		if !same {
			return "C02-K2-skipcount-units"
		}
	}
	if ref.LocalPrefix > 0 {
		seen := map[cid.Cid]bool{}
		for i, l := range rr.Loads {
			if i+1 > ref.LocalPrefix {
				break
			}
			if l.Present && !seen[l.Cid] && ref.FromRemote[l.Cid] {
				return "C02-K2-skipcount-units"
			}
			seen[l.Cid] = true
		}
	}
	return ""
}

func describe(v *pbt.Verdict, c Case, b *dagen.Built, ref *dagen.Ref, reqStore, respStore map[cid.Cid][]byte) {
	reqOnly, respOnly := 0, 0
	reached := map[cid.Cid]bool{}
	repeated := false
	inlineLink := false
	for _, l := range ref.Loads {
		if reached[l.Cid] {
			repeated = true
		}
		reached[l.Cid] = true
		if strings.Count(l.Path, "/") >= 1 {
			inlineLink = true
		}
	}
	for cc := range reached {
		_, q := reqStore[cc]
		_, p := respStore[cc]
		if q && !p {
			reqOnly++
		}
		if p && !q {
			respOnly++
		}
	}
	partial := reqOnly > 0 && respOnly > 0
	if partial {
		v.Label("partial-split")
	}
	if len(ref.Missing) > 0 {
		v.Label("missing-link")
	}
	if repeated {
		v.Label("shared-block-twice")
	}
	if inlineLink {
		v.Label("link-in-inline-node")
	}
	if len(ref.FromRemote) > 0 {
		v.Label("uses-remote")
	}
	if ref.LocalPrefix == len(ref.Loads) {
		v.Label("fully-local")
	}
	v.NonTrivial = partial && (len(ref.Missing) > 0 || inlineLink || repeated)
	v.Note = fmt.Sprintf("sel=%s loads=%d visits=%d missing=%d remote=%d", c.Sel, len(ref.Loads), len(ref.Visits), len(ref.Missing), len(ref.FromRemote))
}

var def = pbt.Def[Case]{Name: "exchange", Gen: gen, Run: judge}

func TestProp(t *testing.T) {
	outerT = t
	pbt.Check(t, run, def, 20000, 1500000)
}

func TestReplay(t *testing.T) {
	outerT = t
	pbt.Register(run, def)
	run.Replay(t)
}
