package c17

import (
	"fmt"
	"testing"

	"pgregory.net/rapid"

	"verif/harness/comp/mqrig"
	"verif/harness/pbt"
)

var run = pbt.Init("C17")
var outerT *testing.T

func TestMain(m *testing.M) { pbt.Main(m, run) }

func gen(t *rapid.T) mqrig.Case {
	switch rapid.IntRange(0, 5).Draw(t, "pattern") {
	case 0, 1, 2:
		return mqrig.GenWindDown(t)
	case 3:
		return mqrig.GenBacklog(t)
	case 4:
		return mqrig.GenFirstSendRace(t)
	}
	return mqrig.Gen(t, false)
}

func judge(c mqrig.Case) *pbt.Verdict {
	v := &pbt.Verdict{}
	o := mqrig.Run(outerT, c)
	if o.LateBuildClass() && run.Known("C16-built-after-queue-exit") {
		// the same root cause leaves an idle queue behind: a message built while the queue exits
		// ends up empty on a queue nobody will ever connect or shut down
		v.Excluded = "C16-built-after-queue-exit"
		return v
	}
	mqrig.Classify(v, c, o)
	v.NonTrivial = o.ReconnectWhilePending
	v.Note = fmt.Sprintf("queues=%d", len(o.Queues))
	if o.Panic != "" {
		return v.Failf("panic: %s", o.Panic)
	}
	for p, n := range o.MaxLivePerPeer {
		if n > 1 {
			return v.Failf("%d live message queues existed for peer %s at a quiescent point", n, p)
		}
	}
	if len(o.LiveAfterLastDisconnect) > 0 {
		return v.Failf("%v", o.LiveAfterLastDisconnect)
	}
	// order: if message-part a was completely queued before part b was even submitted, b must not
	// leave in an earlier message than a
	for p, msgs := range o.WireMsgs {
		at := map[int]int{}
		for i, ms := range msgs {
			for _, m := range ms {
				if _, seen := at[m]; !seen {
					at[m] = i
				}
			}
		}
		for a, ia := range at {
			for b, ib := range at {
				da, okA := o.DoneAt[a]
				if okA && da < o.IssuedAt[b] && ib < ia {
					return v.Failf("messages to %s left out of order: part %d was queued before part %d was submitted, yet %d left first (wire %v)", p, a, b, b, msgs)
				}
			}
		}
	}
	return v
}

var def = pbt.Def[mqrig.Case]{Name: "one-queue-fifo", Gen: gen, Run: judge}

func TestProp(t *testing.T) {
	outerT = t
	pbt.Check(t, run, def, 8000, 500000)
}

func TestReplay(t *testing.T) {
	outerT = t
	pbt.Register(run, def)
	run.Replay(t)
}
