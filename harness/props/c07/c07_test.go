package c07

import (
	"errors"
	"fmt"
	"testing"

	"github.com/ipfs/go-cid"
	cidlink "github.com/ipld/go-ipld-prime/linking/cid"
	"github.com/ipld/go-ipld-prime/traversal"
	"github.com/libp2p/go-libp2p/core/peer"
	"pgregory.net/rapid"

	"github.com/ipfs/go-graphsync"
	gsimpl "github.com/ipfs/go-graphsync/impl"
	gsmsg "github.com/ipfs/go-graphsync/message"

	"verif/harness/dagen"

	"verif/harness/pbt"
	"verif/harness/scen"
	"verif/harness/sim"
)

var run = pbt.Init("C07")
var outerT *testing.T

func TestMain(m *testing.M) { pbt.Main(m, run) }

// budget value relative to the number of link loads the traversal needs
const (
	bZero = iota
	bOne
	bTwo
	bNeededMinus1
	bNeeded
	bNeededPlus1
	bLarge
)

type Case struct {
	Base      scen.Base `json:"base"`
	FullSplit bool      `json:"full_split"` // responder holds everything, requestor nothing (exact sub-case)
	Responder bool      `json:"responder_site"`
	G         int       `json:"global"`
	P         int       `json:"per_request"`
	Warmup    int       `json:"warmup"` // requests the enforcing peer has already handled before the judged one (budgets are per request)
	WarmP     []int     `json:"warm_p"` // per-request limit of each earlier request (0 = its hook sets none)
}

func gen(t *rapid.T) Case {
	c := Case{Base: scen.GenBase(t, run.N(12, 30))}
	c.FullSplit = rapid.IntRange(0, 3).Draw(t, "full") > 0
	c.Responder = rapid.Bool().Draw(t, "site")
	c.G = rapid.IntRange(bZero, bLarge).Draw(t, "G")
	c.P = rapid.IntRange(bZero, bLarge).Draw(t, "P")
	if c.G == bZero && c.P == bZero {
		c.G = rapid.IntRange(bOne, bLarge).Draw(t, "G2")
	}
	c.Warmup = rapid.SampledFrom([]int{0, 0, 1, 2}).Draw(t, "warmup")
	for k := 0; k < c.Warmup; k++ {
		c.WarmP = append(c.WarmP, rapid.SampledFrom([]int{0, 0, 1, 2, 3, 1000}).Draw(t, "warmp"))
	}
	return c
}

func val(kind, needed int) uint64 {
	switch kind {
	case bZero:
		return 0
	case bOne:
		return 1
	case bTwo:
		return 2
	case bNeededMinus1:
		if needed-1 < 1 {
			return 1
		}
		return uint64(needed - 1)
	case bNeeded:
		return uint64(needed)
	case bNeededPlus1:
		return uint64(needed + 1)
	}
	return 1000
}

func judge(c Case) *pbt.Verdict {
	v := &pbt.Verdict{}
	base := c.Base
	if c.FullSplit {
		base.Split = make([]int, len(base.DAG.Blocks))
		for i := range base.Split {
			base.Split[i] = 2
		}
	}
	p, ok := base.Prepare()
	if !ok {
		v.Skip = true
		return v
	}
	attempts := len(p.Ref.Loads) // link loads the traversal attempts (present or missing)
	needed := attempts
	G, P := val(c.G, needed), val(c.P, needed)
	N := G
	if N == 0 || (P != 0 && P < N) {
		N = P
	}
	if p.K2(p.Ref.LocalPrefix) && run.Known("C02-K2-skipcount-units") {
		v.Excluded = "C02-K2-skipcount-units"
		return v
	}
	if N == 1 && run.Known("C07-budget-one") {
		v.Excluded = "C07-budget-one"
		return v
	}
	var reqBlocks int
	opts := scen.ExOpts{}
	if c.Responder {
		if G > 0 {
			opts.RespOpts = append(opts.RespOpts, gsimpl.MaxLinksPerIncomingRequests(G))
		}
	} else if G > 0 {
		opts.ReqOpts = append(opts.ReqOpts, gsimpl.MaxLinksPerOutgoingRequests(G))
	}
	opts.Setup = func(w *sim.World, rq, rs *sim.Inst) {
		// per-request limits are set by the request hooks: P for the judged request (none when 0), and an own
		// limit for each earlier request; the earlier requests are told apart by their root
		warmLimit := map[cid.Cid]uint64{}
		limitFor := func(root cid.Cid) uint64 {
			if root == p.B.Root {
				return P
			}
			return warmLimit[root]
		}
		if c.Responder {
			rs.GS.RegisterIncomingRequestHook(func(_ peer.ID, r graphsync.RequestData, ha graphsync.IncomingRequestHookActions) {
				if l := limitFor(r.Root()); l > 0 {
					ha.MaxLinks(l)
				}
			})
		} else {
			rq.GS.RegisterOutgoingRequestHook(func(_ peer.ID, r graphsync.RequestData, ha graphsync.OutgoingRequestHookActions) {
				if l := limitFor(r.Root()); l > 0 {
					ha.MaxLinks(l)
				}
			})
		}
		rq.GS.RegisterIncomingBlockHook(func(_ peer.ID, _ graphsync.ResponseData, _ graphsync.BlockData, _ graphsync.IncomingBlockHookActions) {
			reqBlocks++
		})
		// history: the enforcing peer has handled other requests before; the budget is per request
		for k := 0; k < c.Warmup; k++ {
			// a small DAG of its own (three link loads), so that the hooks can tell the requests apart
			wd := dagen.DAG{Blocks: []dagen.Block{{Raw: true, Data: fmt.Sprintf("warm-up leaf %d", k)}, {Node: &dagen.Val{K: "list", Vals: []*dagen.Val{{K: "link", L: 0}, {K: "link", L: 0}}}}}}
			wb, err := wd.Build()
			if err != nil {
				continue
			}
			if k < len(c.WarmP) {
				warmLimit[wb.Root] = uint64(c.WarmP[k])
			}
			if c.Responder {
				for cc, d := range wb.Data {
					rs.Store.Put(cc, d)
				}
				w.AddScripted(scen.ThirdID)
				id, err := graphsync.ParseRequestID([]byte(fmt.Sprintf("c07-warmup-req-%d", k)))
				if err != nil {
					panic(err)
				}
				w.Net.Connect(scen.ThirdID, scen.RespID)
				if err := w.Net.Inject(scen.ThirdID, scen.RespID, gsmsg.NewMessage(map[graphsync.RequestID]gsmsg.GraphSyncRequest{id: gsmsg.NewRequest(id, wb.Root, dagen.RecAll(-1).Node(), 0)}, nil, nil)); err != nil {
					panic(err)
				}
				w.Net.Deliver(scen.ThirdID, scen.RespID)
				w.Quiesce()
			} else {
				// the requestor holds it entirely: the request completes without the network
				for cc, d := range wb.Data {
					rq.Store.Put(cc, d)
				}
				res := w.Request(rq, scen.RespID, cidlink.Link{Cid: wb.Root}, dagen.RecAll(-1).Node())
				w.Quiesce()
				_ = res
			}
		}
		reqBlocks = 0
	}
	o := scen.Exchange(outerT, p, opts)
	site := "requestor"
	if c.Responder {
		site = "responder"
	}
	v.Label("site-" + site)
	if c.FullSplit {
		v.Label("full-stores")
	} else {
		v.Label("partial-stores")
	}
	if G > 0 && P > 0 {
		v.Label("both-budgets")
	}
	if c.Warmup > 0 {
		v.Label("after-earlier-requests")
	}
	switch {
	case int(N) < needed:
		v.Label("budget<needed")
	case int(N) == needed:
		v.Label("budget==needed")
	default:
		v.Label("budget>needed")
	}
	v.NonTrivial = N == 1 || int(N) == needed-1 || int(N) == needed || int(N) == needed+1 || (G > 0 && P > 0)
	v.Note = fmt.Sprintf("%s site=%s G=%d P=%d N=%d attempts=%d", p.Note(), site, G, P, N, attempts)
	if o.Panic != "" {
		return v.Failf("panic: %s", o.Panic)
	}
	if !o.RespClosed || !o.ErrClosed {
		return v.Failf("channels not closed at final quiescence")
	}

	// what the enforcing peer loaded
	respPresent, respEntries := 0, 0
	var finalStatus graphsync.ResponseStatusCode
	for _, e := range o.Sent {
		if e.From != scen.RespID || e.To != scen.ReqID {
			continue
		}
		for _, r := range e.Msg.Responses() {
			r.Metadata().Iterate(func(_ cid.Cid, a graphsync.LinkAction) {
				respEntries++
				if a == graphsync.LinkActionPresent {
					respPresent++
				}
			})
			if r.Status().IsTerminal() {
				finalStatus = r.Status()
			}
		}
	}
	var budgetErr bool
	var otherErrs []error
	for _, e := range o.Errs {
		var be *traversal.ErrBudgetExceeded
		if errors.As(e, &be) {
			budgetErr = true
		} else if _, ok := e.(graphsync.RemoteMissingBlockErr); !ok {
			otherErrs = append(otherErrs, e)
		}
	}

	if !c.Responder {
		// cap: always
		if reqBlocks > int(N) {
			return v.Failf("requestor loaded %d blocks with budget %d", reqBlocks, N)
		}
		if attempts <= int(N) {
			if budgetErr || len(otherErrs) > 0 {
				return v.Failf("budget %d >= %d link loads needed, yet request failed: %v", N, attempts, o.Errs)
			}
			if !sameVisits(o, p) {
				return v.Failf("budget %d >= %d needed but outcome differs from the unbudgeted traversal (%d vs %d nodes)", N, attempts, len(o.Visits), len(p.Ref.Visits))
			}
			return v
		}
		if c.FullSplit {
			// exact sub-case: every attempt is a block
			if !budgetErr {
				return v.Failf("traversal needs %d blocks, budget %d, but no budget-exceeded error: errs=%v", needed, N, o.Errs)
			}
			if reqBlocks != int(N) {
				return v.Failf("budget %d: request failed after %d blocks, want exactly %d", N, reqBlocks, N)
			}
			if !prefixVisits(o, p) {
				return v.Failf("delivered nodes are not a prefix of the unbudgeted traversal")
			}
		}
		return v
	}
	// responder site
	if respPresent > int(N) {
		return v.Failf("responder loaded %d blocks with budget %d", respPresent, N)
	}
	rr := p.RespRef()
	rAttempts := len(rr.Loads)
	if !p.NeedsRemote() {
		return v // request never reached the responder
	}
	if rAttempts <= int(N) {
		if finalStatus.IsFailure() || budgetErr || len(otherErrs) > 0 {
			return v.Failf("responder budget %d >= %d link loads needed, yet request failed: status=%s errs=%v", N, rAttempts, finalStatus, o.Errs)
		}
		if !sameVisits(o, p) {
			return v.Failf("responder budget %d >= %d needed but outcome differs from the unbudgeted exchange", N, rAttempts)
		}
		return v
	}
	if c.FullSplit {
		if !finalStatus.IsFailure() {
			return v.Failf("responder traversal needs %d blocks, budget %d, but final status is %s", rAttempts, N, finalStatus)
		}
		if respEntries != int(N) {
			return v.Failf("responder budget %d: failed after %d metadata entries, want exactly %d", N, respEntries, N)
		}
	}
	return v
}

func sameVisits(o scen.Outcome, p *scen.Prepared) bool {
	if len(o.Visits) != len(p.Ref.Visits) {
		return false
	}
	return prefixVisits(o, p)
}

func prefixVisits(o scen.Outcome, p *scen.Prepared) bool {
	if len(o.Visits) > len(p.Ref.Visits) {
		return false
	}
	for i := range o.Visits {
		if o.Visits[i].Key() != p.Ref.Visits[i].Key() {
			return false
		}
	}
	return true
}

var def = pbt.Def[Case]{Name: "budget", Gen: gen, Run: judge}

func TestProp(t *testing.T) {
	outerT = t
	pbt.Check(t, run, def, 12000, 800000)
}

func TestReplay(t *testing.T) {
	outerT = t
	pbt.Register(run, def)
	run.Replay(t)
}
