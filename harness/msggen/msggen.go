// Package msggen generates GraphSync v2 wire messages as JSON-serialisable
// specs, builds them through the public constructors, and compares messages
// through their public accessors with map-order-insensitive node equality.
package msggen

import (
	"bytes"
	"fmt"
	"math"
	"sort"

	blocks "github.com/ipfs/go-block-format"
	"github.com/ipfs/go-cid"
	"github.com/ipld/go-ipld-prime"
	"github.com/ipld/go-ipld-prime/datamodel"
	cidlink "github.com/ipld/go-ipld-prime/linking/cid"
	"github.com/ipld/go-ipld-prime/node/basicnode"
	mh "github.com/multiformats/go-multihash"
	"pgregory.net/rapid"

	"github.com/ipfs/go-graphsync"
	gsmsg "github.com/ipfs/go-graphsync/message"

	"verif/harness/dagen"
)

// Any is an arbitrary IPLD value.
type Any struct {
	K    string   `json:"k"` // null bool int float str bytes link map list
	I    int64    `json:"i,omitempty"`
	F    float64  `json:"f,omitempty"`
	S    string   `json:"s,omitempty"`
	C    *CidSpec `json:"c,omitempty"`
	Keys []string `json:"keys,omitempty"`
	Vals []*Any   `json:"vals,omitempty"`
}

// CidSpec describes a CID by prefix and the data it hashes.
type CidSpec struct {
	V     uint64 `json:"v"`
	Codec uint64 `json:"codec"`
	Mh    uint64 `json:"mh"`
	Len   int    `json:"len"` // -1 = default length
	Seed  string `json:"seed"`
}

func (c *CidSpec) Prefix() cid.Prefix {
	return cid.Prefix{Version: c.V, Codec: c.Codec, MhType: c.Mh, MhLength: c.Len}
}

func (c *CidSpec) Cid() (cid.Cid, error) { return c.Prefix().Sum([]byte(c.Seed)) }

type Ext struct {
	Name string `json:"name"`
	Nil  bool   `json:"nil,omitempty"` // Data is a nil node
	Val  *Any   `json:"val,omitempty"`
}

type Req struct {
	ID     string     `json:"id"`   // 16 raw bytes
	Type   string     `json:"type"` // n c u
	Root   *CidSpec   `json:"root,omitempty"`
	Sel    *dagen.Sel `json:"sel,omitempty"`
	SelAny *Any       `json:"sel_any,omitempty"`
	Pri    int32      `json:"pri,omitempty"`
	Exts   []Ext      `json:"exts,omitempty"`
}

type Meta struct {
	C      CidSpec `json:"c"`
	Action string  `json:"a"`
}

type Resp struct {
	ID     string `json:"id"`
	Status int32  `json:"status"`
	Meta   []Meta `json:"meta,omitempty"`
	Exts   []Ext  `json:"exts,omitempty"`
}

type Blk struct {
	C CidSpec `json:"c"` // Seed is the data
}

type Msg struct {
	Reqs   []Req  `json:"reqs,omitempty"`
	Resps  []Resp `json:"resps,omitempty"`
	Blocks []Blk  `json:"blocks,omitempty"`
}

// ---- building ----

func (a *Any) Node() (datamodel.Node, error) {
	nb := basicnode.Prototype.Any.NewBuilder()
	if err := a.assemble(nb); err != nil {
		return nil, err
	}
	return nb.Build(), nil
}

func (a *Any) assemble(na datamodel.NodeAssembler) error {
	switch a.K {
	case "null":
		return na.AssignNull()
	case "bool":
		return na.AssignBool(a.I != 0)
	case "int":
		return na.AssignInt(a.I)
	case "float":
		return na.AssignFloat(a.F)
	case "str":
		return na.AssignString(a.S)
	case "bytes":
		return na.AssignBytes([]byte(a.S))
	case "link":
		c, err := a.C.Cid()
		if err != nil {
			return err
		}
		return na.AssignLink(cidlink.Link{Cid: c})
	case "map":
		ma, err := na.BeginMap(int64(len(a.Keys)))
		if err != nil {
			return err
		}
		for i, k := range a.Keys {
			va, err := ma.AssembleEntry(k)
			if err != nil {
				return err
			}
			if err := a.Vals[i].assemble(va); err != nil {
				return err
			}
		}
		return ma.Finish()
	case "list":
		la, err := na.BeginList(int64(len(a.Vals)))
		if err != nil {
			return err
		}
		for _, v := range a.Vals {
			if err := v.assemble(la.AssembleValue()); err != nil {
				return err
			}
		}
		return la.Finish()
	}
	return fmt.Errorf("bad kind %q", a.K)
}

func buildExts(es []Ext) ([]graphsync.ExtensionData, error) {
	var out []graphsync.ExtensionData
	for _, e := range es {
		d := graphsync.ExtensionData{Name: graphsync.ExtensionName(e.Name)}
		if !e.Nil && e.Val != nil {
			n, err := e.Val.Node()
			if err != nil {
				return nil, err
			}
			d.Data = n
		}
		out = append(out, d)
	}
	return out, nil
}

func ParseID(s string) (graphsync.RequestID, error) { return graphsync.ParseRequestID([]byte(s)) }

// Build constructs the message through the public constructors.
func (m Msg) Build() (gsmsg.GraphSyncMessage, error) {
	reqs := map[graphsync.RequestID]gsmsg.GraphSyncRequest{}
	for _, r := range m.Reqs {
		id, err := ParseID(r.ID)
		if err != nil {
			return gsmsg.GraphSyncMessage{}, err
		}
		exts, err := buildExts(r.Exts)
		if err != nil {
			return gsmsg.GraphSyncMessage{}, err
		}
		switch r.Type {
		case "c":
			reqs[id] = gsmsg.NewCancelRequest(id)
		case "u":
			reqs[id] = gsmsg.NewUpdateRequest(id, exts...)
		default:
			root := cid.Undef
			if r.Root != nil {
				if root, err = r.Root.Cid(); err != nil {
					return gsmsg.GraphSyncMessage{}, err
				}
			}
			var sel ipld.Node
			if r.Sel != nil {
				sel = r.Sel.Node()
			} else if r.SelAny != nil {
				if sel, err = r.SelAny.Node(); err != nil {
					return gsmsg.GraphSyncMessage{}, err
				}
			}
			reqs[id] = gsmsg.NewRequest(id, root, sel, graphsync.Priority(r.Pri), exts...)
		}
	}
	resps := map[graphsync.RequestID]gsmsg.GraphSyncResponse{}
	for _, r := range m.Resps {
		id, err := ParseID(r.ID)
		if err != nil {
			return gsmsg.GraphSyncMessage{}, err
		}
		exts, err := buildExts(r.Exts)
		if err != nil {
			return gsmsg.GraphSyncMessage{}, err
		}
		var md []gsmsg.GraphSyncLinkMetadatum
		for _, x := range r.Meta {
			c, err := x.C.Cid()
			if err != nil {
				return gsmsg.GraphSyncMessage{}, err
			}
			md = append(md, gsmsg.GraphSyncLinkMetadatum{Link: c, Action: graphsync.LinkAction(x.Action)})
		}
		resps[id] = gsmsg.NewResponse(id, graphsync.ResponseStatusCode(r.Status), md, exts...)
	}
	blks := map[cid.Cid]blocks.Block{}
	for _, b := range m.Blocks {
		c, err := b.C.Cid()
		if err != nil {
			return gsmsg.GraphSyncMessage{}, err
		}
		blk, err := blocks.NewBlockWithCid([]byte(b.C.Seed), c)
		if err != nil {
			return gsmsg.GraphSyncMessage{}, err
		}
		blks[c] = blk
	}
	return gsmsg.NewMessage(reqs, resps, blks), nil
}

// ---- equality through public accessors ----

// EqualNode: kind-aware deep equality, insensitive to map entry order; nil == Null.
func EqualNode(a, b datamodel.Node) bool {
	an := a == nil || a.IsNull()
	bn := b == nil || b.IsNull()
	if an || bn {
		return an == bn
	}
	if a.Kind() != b.Kind() {
		return false
	}
	switch a.Kind() {
	case datamodel.Kind_Bool:
		x, _ := a.AsBool()
		y, _ := b.AsBool()
		return x == y
	case datamodel.Kind_Int:
		x, _ := a.AsInt()
		y, _ := b.AsInt()
		return x == y
	case datamodel.Kind_Float:
		x, _ := a.AsFloat()
		y, _ := b.AsFloat()
		return x == y || (math.IsNaN(x) && math.IsNaN(y))
	case datamodel.Kind_String:
		x, _ := a.AsString()
		y, _ := b.AsString()
		return x == y
	case datamodel.Kind_Bytes:
		x, _ := a.AsBytes()
		y, _ := b.AsBytes()
		return bytes.Equal(x, y)
	case datamodel.Kind_Link:
		x, _ := a.AsLink()
		y, _ := b.AsLink()
		return x.String() == y.String()
	case datamodel.Kind_List:
		if a.Length() != b.Length() {
			return false
		}
		for i := int64(0); i < a.Length(); i++ {
			x, _ := a.LookupByIndex(i)
			y, _ := b.LookupByIndex(i)
			if !EqualNode(x, y) {
				return false
			}
		}
		return true
	case datamodel.Kind_Map:
		if a.Length() != b.Length() {
			return false
		}
		it := a.MapIterator()
		for !it.Done() {
			k, v, err := it.Next()
			if err != nil {
				return false
			}
			ks, _ := k.AsString()
			w, err := b.LookupByString(ks)
			if err != nil || !EqualNode(v, w) {
				return false
			}
		}
		return true
	}
	return false
}

type withExts interface {
	ExtensionNames() []graphsync.ExtensionName
	Extension(graphsync.ExtensionName) (datamodel.Node, bool)
}

func diffExts(a, b withExts) string {
	an, bn := a.ExtensionNames(), b.ExtensionNames()
	if len(an) != len(bn) {
		return fmt.Sprintf("extension names %v vs %v", an, bn)
	}
	for _, n := range an {
		x, ok1 := a.Extension(n)
		y, ok2 := b.Extension(n)
		if ok1 != ok2 {
			return fmt.Sprintf("extension %q present %v vs %v", n, ok1, ok2)
		}
		if !EqualNode(x, y) {
			return fmt.Sprintf("extension %q value differs: %s vs %s", n, dagen.PrintNode(x), dagen.PrintNode(y))
		}
	}
	return ""
}

// Diff returns "" when the two messages are equivalent.
func Diff(a, b gsmsg.GraphSyncMessage) string {
	ar, br := a.Requests(), b.Requests()
	if len(ar) != len(br) {
		return fmt.Sprintf("%d requests vs %d", len(ar), len(br))
	}
	bm := map[graphsync.RequestID]gsmsg.GraphSyncRequest{}
	for _, r := range br {
		bm[r.ID()] = r
	}
	for _, x := range ar {
		y, ok := bm[x.ID()]
		if !ok {
			return fmt.Sprintf("request %s lost", x.ID())
		}
		if x.Type() != y.Type() {
			return fmt.Sprintf("request type %s vs %s", x.Type(), y.Type())
		}
		if !x.Root().Equals(y.Root()) {
			return fmt.Sprintf("request root %s vs %s", x.Root(), y.Root())
		}
		if x.Priority() != y.Priority() {
			return fmt.Sprintf("request priority %d vs %d", x.Priority(), y.Priority())
		}
		if !EqualNode(x.Selector(), y.Selector()) {
			return fmt.Sprintf("request selector %s vs %s", dagen.PrintNode(x.Selector()), dagen.PrintNode(y.Selector()))
		}
		if d := diffExts(x, y); d != "" {
			return "request " + d
		}
	}
	as, bs := a.Responses(), b.Responses()
	if len(as) != len(bs) {
		return fmt.Sprintf("%d responses vs %d", len(as), len(bs))
	}
	bsm := map[graphsync.RequestID]gsmsg.GraphSyncResponse{}
	for _, r := range bs {
		bsm[r.RequestID()] = r
	}
	for _, x := range as {
		y, ok := bsm[x.RequestID()]
		if !ok {
			return fmt.Sprintf("response %s lost", x.RequestID())
		}
		if x.Status() != y.Status() {
			return fmt.Sprintf("response status %d vs %d", x.Status(), y.Status())
		}
		var xm, ym []string
		x.Metadata().Iterate(func(c cid.Cid, a graphsync.LinkAction) { xm = append(xm, c.String()+":"+string(a)) })
		y.Metadata().Iterate(func(c cid.Cid, a graphsync.LinkAction) { ym = append(ym, c.String()+":"+string(a)) })
		if fmt.Sprint(xm) != fmt.Sprint(ym) || x.Metadata().Length() != y.Metadata().Length() {
			return fmt.Sprintf("response metadata %v vs %v", xm, ym)
		}
		if d := diffExts(x, y); d != "" {
			return "response " + d
		}
	}
	ab, bb := a.Blocks(), b.Blocks()
	if len(ab) != len(bb) {
		return fmt.Sprintf("%d blocks vs %d", len(ab), len(bb))
	}
	key := func(bs []blocks.Block) []string {
		var out []string
		for _, b := range bs {
			out = append(out, b.Cid().String()+"="+string(b.RawData()))
		}
		sort.Strings(out)
		return out
	}
	ka, kb := key(ab), key(bb)
	for i := range ka {
		if ka[i] != kb[i] {
			return fmt.Sprintf("block differs: %q vs %q", ka[i], kb[i])
		}
	}
	return ""
}

// ---- generators ----

var hashFns = []uint64{mh.SHA2_256, mh.SHA2_512, mh.SHA3_256, mh.SHA3_512, mh.SHA1, mh.KECCAK_256, mh.BLAKE2B_MIN + 31, mh.BLAKE2S_MIN + 31, mh.DBL_SHA2_256, mh.MURMUR3X64_64, mh.BLAKE3, mh.IDENTITY, mh.MD5, 0x1013, 0x20, mh.SHAKE_128, mh.SHAKE_256}
var codecs = []uint64{cid.Raw, cid.DagCBOR, cid.DagProtobuf, cid.DagJSON, cid.GitRaw, 0x0129, 0x300000}

func GenCid(t *rapid.T) CidSpec {
	seed := rapid.SampledFrom([]string{"", "a", "seed-1", "seed-2", "some longer seed data for hashing"}).Draw(t, "seed")
	switch rapid.IntRange(0, 9).Draw(t, "cidkind") {
	case 0:
		return CidSpec{V: 0, Codec: cid.DagProtobuf, Mh: mh.SHA2_256, Len: 32, Seed: seed}
	case 1, 2, 3, 4:
		return CidSpec{V: 1, Codec: rapid.SampledFrom([]uint64{cid.Raw, cid.DagCBOR}).Draw(t, "codec"), Mh: mh.SHA2_256, Len: 32, Seed: seed}
	case 5:
		return CidSpec{V: 1, Codec: rapid.SampledFrom(codecs).Draw(t, "codec"), Mh: mh.IDENTITY, Len: -1, Seed: seed}
	case 6:
		// truncated digest
		return CidSpec{V: 1, Codec: rapid.SampledFrom(codecs).Draw(t, "codec"), Mh: rapid.SampledFrom([]uint64{mh.SHA2_256, mh.SHA2_512, mh.SHA3_256}).Draw(t, "mh"), Len: rapid.IntRange(1, 31).Draw(t, "trunc"), Seed: seed}
	default:
		return CidSpec{V: 1, Codec: rapid.SampledFrom(codecs).Draw(t, "codec"), Mh: rapid.SampledFrom(hashFns).Draw(t, "mh"), Len: -1, Seed: seed}
	}
}

// Usable reports whether the multihash registry can compute this CID.
func (c *CidSpec) Usable() bool {
	_, err := c.Cid()
	return err == nil
}

func GenAny(t *rapid.T, depth int) *Any {
	k := rapid.IntRange(0, 11).Draw(t, "anyk")
	if depth >= 3 && k >= 8 {
		k = k % 8
	}
	switch k {
	case 0:
		return &Any{K: "null"}
	case 1:
		return &Any{K: "bool", I: int64(rapid.IntRange(0, 1).Draw(t, "b"))}
	case 2, 3:
		return &Any{K: "int", I: rapid.SampledFrom([]int64{0, 1, -1, 23, 24, 255, 256, 65535, 65536, math.MaxInt32, math.MinInt32, math.MaxInt64, math.MinInt64}).Draw(t, "i")}
	case 4:
		return &Any{K: "float", F: rapid.SampledFrom([]float64{0, 1.5, -2.25, 1e300, 3.0}).Draw(t, "f")}
	case 5:
		return &Any{K: "str", S: rapid.SampledFrom([]string{"", "a", "hello", "graphsync/do-not-send-cids", "ünïcödé", "\x00nul"}).Draw(t, "s")}
	case 6:
		return &Any{K: "bytes", S: string(rapid.SliceOfN(rapid.Byte(), 0, 40).Draw(t, "bytes"))}
	case 7:
		c := GenCid(t)
		return &Any{K: "link", C: &c}
	case 8, 9:
		n := rapid.IntRange(0, 4).Draw(t, "mn")
		a := &Any{K: "map"}
		seen := map[string]bool{}
		for i := 0; i < n; i++ {
			key := rapid.SampledFrom([]string{"a", "b", "zz", "", "aa", "B", "10", "2", "long-key-name"}).Draw(t, "mk")
			if seen[key] {
				continue
			}
			seen[key] = true
			a.Keys = append(a.Keys, key)
			a.Vals = append(a.Vals, GenAny(t, depth+1))
		}
		return a
	default:
		n := rapid.IntRange(0, 4).Draw(t, "ln")
		a := &Any{K: "list"}
		for i := 0; i < n; i++ {
			a.Vals = append(a.Vals, GenAny(t, depth+1))
		}
		return a
	}
}

var extNames = []string{string(graphsync.ExtensionDoNotSendCIDs), string(graphsync.ExtensionsDoNotSendFirstBlocks), string(graphsync.ExtensionDeDupByKey), "custom/ext", "", "a", "ünï"}

func GenExts(t *rapid.T) []Ext {
	n := rapid.SampledFrom([]int{0, 0, 1, 1, 2, 3}).Draw(t, "next")
	var out []Ext
	seen := map[string]bool{}
	for i := 0; i < n; i++ {
		name := rapid.SampledFrom(extNames).Draw(t, "extname")
		if seen[name] {
			continue
		}
		seen[name] = true
		e := Ext{Name: name}
		switch rapid.IntRange(0, 5).Draw(t, "extval") {
		case 0:
			e.Nil = true
		default:
			e.Val = GenAny(t, 1)
		}
		out = append(out, e)
	}
	return out
}

func GenID(t *rapid.T) string {
	return string(rapid.SliceOfN(rapid.Byte(), 16, 16).Draw(t, "id"))
}

var Statuses = []int32{10, 11, 12, 13, 14, 15, 20, 21, 30, 31, 32, 33, 34, 35}
var Actions = []string{"Present", "DuplicateNotSent", "Missing", "DuplicateDAGSkipped"}

func GenMsg(t *rapid.T) Msg {
	var m Msg
	ids := map[string]bool{}
	nr := rapid.SampledFrom([]int{0, 1, 1, 2, 3}).Draw(t, "nreq")
	for i := 0; i < nr; i++ {
		id := GenID(t)
		if ids[id] {
			continue
		}
		ids[id] = true
		r := Req{ID: id, Type: rapid.SampledFrom([]string{"n", "n", "n", "c", "u"}).Draw(t, "rtype")}
		if r.Type == "n" {
			if rapid.IntRange(0, 9).Draw(t, "hasroot") > 0 {
				c := GenCid(t)
				r.Root = &c
			}
			switch rapid.IntRange(0, 5).Draw(t, "selkind") {
			case 0:
			case 1:
				// the schema's `sel` field is `optional Any` (not nullable): null itself is not expressible
				r.SelAny = GenAny(t, 0)
				if r.SelAny.K == "null" {
					r.SelAny = &Any{K: "list", Vals: []*Any{{K: "null"}}}
				}
			default:
				r.Sel = dagen.GenTraversalSel(t)
			}
			r.Pri = rapid.SampledFrom([]int32{0, 0, 1, -1, 7, math.MaxInt32, math.MinInt32}).Draw(t, "pri")
		}
		if r.Type != "c" {
			r.Exts = GenExts(t)
		}
		m.Reqs = append(m.Reqs, r)
	}
	ids = map[string]bool{}
	ns := rapid.SampledFrom([]int{0, 1, 1, 2, 3}).Draw(t, "nresp")
	for i := 0; i < ns; i++ {
		id := GenID(t)
		if ids[id] {
			continue
		}
		ids[id] = true
		r := Resp{ID: id, Status: rapid.SampledFrom(Statuses).Draw(t, "status"), Exts: GenExts(t)}
		nm := rapid.SampledFrom([]int{0, 0, 1, 2, 5}).Draw(t, "nmeta")
		for j := 0; j < nm; j++ {
			var c CidSpec
			if j > 0 && rapid.IntRange(0, 3).Draw(t, "repeat") == 0 {
				c = r.Meta[j-1].C
			} else {
				c = GenCid(t)
			}
			r.Meta = append(r.Meta, Meta{C: c, Action: rapid.SampledFrom(Actions).Draw(t, "action")})
		}
		m.Resps = append(m.Resps, r)
	}
	nb := rapid.SampledFrom([]int{0, 0, 1, 2, 4}).Draw(t, "nblk")
	for i := 0; i < nb; i++ {
		c := GenCid(t)
		switch rapid.IntRange(0, 9).Draw(t, "datasize") {
		case 0:
			c.Seed = ""
		case 1:
			c.Seed = string(bytes.Repeat([]byte{0xAB}, rapid.SampledFrom([]int{1000, 65536}).Draw(t, "big")))
		default:
			c.Seed = string(rapid.SliceOfN(rapid.Byte(), 0, 60).Draw(t, "data"))
		}
		m.Blocks = append(m.Blocks, Blk{C: c})
	}
	return m
}

// UsableMsg reports whether every CID in the message can be computed by the registry.
func (m Msg) Usable() bool {
	_, err := m.Build()
	return err == nil
}
