// Package sim is the bubble simulator: real impl.New GraphSync instances and
// scripted peers attached to an in-memory network whose every boundary event
// (delivery, send outcome, connect, disconnect) is owned by the harness. It is
// meant to run inside a testing/synctest bubble so that synctest.Wait gives
// exact quiescence and time is virtual.
package sim

import (
	"bytes"
	"context"
	"errors"
	"fmt"
	"sort"
	"sync"

	"github.com/ipfs/go-cid"
	"github.com/libp2p/go-libp2p/core/peer"

	"github.com/ipfs/go-graphsync"

	gsmsg "github.com/ipfs/go-graphsync/message"
	gsmsgv2 "github.com/ipfs/go-graphsync/message/v2"
	gsnet "github.com/ipfs/go-graphsync/network"
)

// SendOutcome is what a gated SendMsg does.
type SendOutcome int

const (
	SendOK SendOutcome = iota
	SendFail
	SendBlock // blocks until released (Net.ReleaseBlocked) or the send context ends
)

// Envelope is a message in flight on a directed link.
type Envelope struct {
	Seq      int
	From, To peer.ID
	Bytes    []byte
	Msg      gsmsg.GraphSyncMessage // decoded form of Bytes (what the receiver will see)
	// DeliveredAtSeq is the number of messages the network had accepted when this one was
	// released to its receiver (-1 while undelivered): message k was sent before this
	// delivery iff k < DeliveredAtSeq.
	DeliveredAtSeq int
}

type linkKey struct{ from, to peer.ID }

type blockedSend struct {
	k    linkKey
	c    chan struct{}
	fail *bool
}

type link struct {
	queue   []*Envelope
	release chan *Envelope
}

// Net is the in-memory network.
type Net struct {
	mu        sync.Mutex
	ends      map[peer.ID]*Endpoint
	links     map[linkKey]*link
	connected map[linkKey]bool
	seq       int
	handler   *gsmsgv2.MessageHandler

	// Sent is every message accepted by SendMsg (or injected by a scripted peer), in order.
	Sent []*Envelope
	// Delivered is every envelope handed to a receiver, in order.
	Delivered []*Envelope
	// Attempts is every message handed to SendMsg, whatever the outcome (undecoded form).
	Attempts []*Envelope
	// SendAttempts counts SendMsg calls per directed link (including failed ones).
	SendAttempts map[linkKey]int

	// SendPolicy decides the outcome of the n-th (0-based) SendMsg on a link. nil = always OK.
	SendPolicy func(from, to peer.ID, n int, msg gsmsg.GraphSyncMessage) SendOutcome
	// ConnectPolicy may fail ConnectTo / NewMessageSender. nil = always succeed.
	ConnectPolicy func(from, to peer.ID) error

	// KeepBlockedOnDisconnect: sends stalled when their connection closes stay stalled (the
	// local stack has not noticed yet) instead of failing at once.
	KeepBlockedOnDisconnect bool
	blocked                 []blockedSend
	epoch                   map[linkKey]int // connection generation per directed pair; a sender dies with its connection
	closed                  bool
	wg                      sync.WaitGroup
}

func NewNet() *Net {
	return &Net{ends: map[peer.ID]*Endpoint{}, links: map[linkKey]*link{}, connected: map[linkKey]bool{},
		SendAttempts: map[linkKey]int{}, handler: gsmsgv2.NewMessageHandler(), epoch: map[linkKey]int{}}
}

// Endpoint is one peer's view of the network; implements gsnet.GraphSyncNetwork.
type Endpoint struct {
	net  *Net
	ID   peer.ID
	recv gsnet.Receiver
	CM   *ConnMgr
	// Received holds decoded messages for scripted peers (no receiver set).
	Received []*Envelope
}

func (n *Net) AddEndpoint(id peer.ID) *Endpoint {
	n.mu.Lock()
	defer n.mu.Unlock()
	e := &Endpoint{net: n, ID: id, CM: &ConnMgr{counts: map[string]int{}}}
	n.ends[id] = e
	return e
}

func (n *Net) getLink(from, to peer.ID) *link {
	k := linkKey{from, to}
	l, ok := n.links[k]
	if !ok {
		l = &link{release: make(chan *Envelope, 4096)}
		n.links[k] = l
		n.wg.Add(1)
		go n.pump(k, l)
	}
	return l
}

func (n *Net) pump(k linkKey, l *link) {
	defer n.wg.Done()
	for env := range l.release {
		n.mu.Lock()
		dst := n.ends[k.to]
		n.Delivered = append(n.Delivered, env)
		n.mu.Unlock()
		if dst == nil {
			continue
		}
		if dst.recv == nil {
			n.mu.Lock()
			dst.Received = append(dst.Received, env)
			n.mu.Unlock()
			continue
		}
		dst.recv.ReceiveMessage(context.Background(), k.from, env.Msg)
	}
}

// Encode turns a message into wire bytes and back, so only wire-expressible content travels.
func (n *Net) Encode(msg gsmsg.GraphSyncMessage) ([]byte, gsmsg.GraphSyncMessage, error) {
	var buf bytes.Buffer
	if err := n.handler.ToNet(peer.ID(""), msg, &buf); err != nil {
		return nil, gsmsg.GraphSyncMessage{}, err
	}
	b := append([]byte(nil), buf.Bytes()...)
	dec, err := n.handler.FromNet(peer.ID(""), bytes.NewReader(b))
	if err != nil {
		return b, gsmsg.GraphSyncMessage{}, err
	}
	return b, dec, nil
}

func (n *Net) enqueue(from, to peer.ID, msg gsmsg.GraphSyncMessage) error {
	b, dec, err := n.Encode(msg)
	if err != nil {
		return fmt.Errorf("wire encode/decode: %w", err)
	}
	n.mu.Lock()
	defer n.mu.Unlock()
	if n.closed {
		return errors.New("network closed")
	}
	env := &Envelope{Seq: n.seq, From: from, To: to, Bytes: b, Msg: dec, DeliveredAtSeq: -1}
	n.seq++
	n.Sent = append(n.Sent, env)
	l := n.getLink(from, to)
	l.queue = append(l.queue, env)
	return nil
}

// Inject places a message on the link as if `from` had sent it (scripted peers).
func (n *Net) Inject(from, to peer.ID, msg gsmsg.GraphSyncMessage) error {
	return n.enqueue(from, to, msg)
}

// InjectRaw places pre-encoded bytes (must decode) on the link.
func (n *Net) InjectRaw(from, to peer.ID, b []byte) error {
	dec, err := n.handler.FromNet(peer.ID(""), bytes.NewReader(b))
	if err != nil {
		return err
	}
	n.mu.Lock()
	defer n.mu.Unlock()
	env := &Envelope{Seq: n.seq, From: from, To: to, Bytes: b, Msg: dec, DeliveredAtSeq: -1}
	n.seq++
	n.Sent = append(n.Sent, env)
	l := n.getLink(from, to)
	l.queue = append(l.queue, env)
	return nil
}

// PendingLinks lists directed links with undelivered envelopes, ordered by the
// sequence number of their head (oldest first).
func (n *Net) PendingLinks() [][2]peer.ID {
	n.mu.Lock()
	defer n.mu.Unlock()
	type h struct {
		k   linkKey
		seq int
	}
	var hs []h
	for k, l := range n.links {
		if len(l.queue) > 0 {
			hs = append(hs, h{k, l.queue[0].Seq})
		}
	}
	sort.Slice(hs, func(i, j int) bool { return hs[i].seq < hs[j].seq })
	out := make([][2]peer.ID, len(hs))
	for i, x := range hs {
		out[i] = [2]peer.ID{x.k.from, x.k.to}
	}
	return out
}

// PendingCount is the number of undelivered envelopes.
func (n *Net) PendingCount() int {
	n.mu.Lock()
	defer n.mu.Unlock()
	c := 0
	for _, l := range n.links {
		c += len(l.queue)
	}
	return c
}

// Peek returns the head envelope of a link without delivering it.
func (n *Net) Peek(from, to peer.ID) *Envelope {
	n.mu.Lock()
	defer n.mu.Unlock()
	l := n.links[linkKey{from, to}]
	if l == nil || len(l.queue) == 0 {
		return nil
	}
	return l.queue[0]
}

// Deliver releases the head envelope of a link to its receiver (asynchronously;
// call synctest.Wait afterwards). Returns nil if nothing was pending.
func (n *Net) Deliver(from, to peer.ID) *Envelope {
	n.mu.Lock()
	defer n.mu.Unlock()
	l := n.links[linkKey{from, to}]
	if l == nil || len(l.queue) == 0 {
		return nil
	}
	env := l.queue[0]
	l.queue = l.queue[1:]
	env.DeliveredAtSeq = n.seq
	l.release <- env
	return env
}

// Drop discards the head envelope of a link.
func (n *Net) Drop(from, to peer.ID) *Envelope {
	n.mu.Lock()
	defer n.mu.Unlock()
	l := n.links[linkKey{from, to}]
	if l == nil || len(l.queue) == 0 {
		return nil
	}
	env := l.queue[0]
	l.queue = l.queue[1:]
	return env
}

// Connect marks a<->b connected and notifies both receivers, as libp2p's notifee does.
func (n *Net) Connect(a, b peer.ID) {
	n.mu.Lock()
	if n.connected[linkKey{a, b}] {
		n.mu.Unlock()
		return
	}
	n.connected[linkKey{a, b}] = true
	n.connected[linkKey{b, a}] = true
	ea, eb := n.ends[a], n.ends[b]
	n.mu.Unlock()
	if ea != nil && ea.recv != nil {
		ea.recv.Connected(b)
	}
	if eb != nil && eb.recv != nil {
		eb.recv.Connected(a)
	}
}

// Disconnect notifies both receivers; in-flight envelopes between them are dropped.
func (n *Net) Disconnect(a, b peer.ID) {
	n.mu.Lock()
	if !n.connected[linkKey{a, b}] {
		n.mu.Unlock()
		return
	}
	delete(n.connected, linkKey{a, b})
	delete(n.connected, linkKey{b, a})
	var release []blockedSend
	for _, k := range []linkKey{{a, b}, {b, a}} {
		if l := n.links[k]; l != nil {
			l.queue = nil
		}
		n.epoch[k]++
		var keep []blockedSend
		for _, bs := range n.blocked {
			if bs.k == k && !n.KeepBlockedOnDisconnect {
				*bs.fail = true
				release = append(release, bs)
			} else {
				keep = append(keep, bs)
			}
		}
		n.blocked = keep
	}
	ea, eb := n.ends[a], n.ends[b]
	n.mu.Unlock()
	for _, bs := range release {
		close(bs.c) // sends stalled on the lost connection fail
	}
	if ea != nil && ea.recv != nil {
		ea.recv.Disconnected(b)
	}
	if eb != nil && eb.recv != nil {
		eb.recv.Disconnected(a)
	}
}

func (n *Net) IsConnected(a, b peer.ID) bool {
	n.mu.Lock()
	defer n.mu.Unlock()
	return n.connected[linkKey{a, b}]
}

// ReleaseBlocked lets every SendMsg currently parked by SendBlock return nil.
func (n *Net) ReleaseBlocked() {
	n.mu.Lock()
	bl := n.blocked
	n.blocked = nil
	n.mu.Unlock()
	for _, bs := range bl {
		close(bs.c)
	}
}

// Close stops the link pumps.
func (n *Net) Close() {
	n.mu.Lock()
	if n.closed {
		n.mu.Unlock()
		return
	}
	n.closed = true
	for _, l := range n.links {
		close(l.release)
	}
	n.mu.Unlock()
}

// ---- gsnet.GraphSyncNetwork ----

func (e *Endpoint) SetDelegate(r gsnet.Receiver) { e.recv = r }

func (e *Endpoint) ConnectionManager() gsnet.ConnManager { return e.CM }

func (e *Endpoint) ConnectTo(ctx context.Context, p peer.ID) error {
	if pol := e.net.ConnectPolicy; pol != nil {
		if err := pol(e.ID, p); err != nil {
			return err
		}
	}
	e.net.Connect(e.ID, p)
	return nil
}

func (e *Endpoint) SendMessage(ctx context.Context, p peer.ID, m gsmsg.GraphSyncMessage) error {
	s, err := e.NewMessageSender(ctx, p, gsnet.MessageSenderOpts{})
	if err != nil {
		return err
	}
	return s.SendMsg(ctx, m)
}

func (e *Endpoint) NewMessageSender(ctx context.Context, p peer.ID, _ gsnet.MessageSenderOpts) (gsnet.MessageSender, error) {
	if pol := e.net.ConnectPolicy; pol != nil {
		if err := pol(e.ID, p); err != nil {
			return nil, err
		}
	}
	e.net.mu.Lock()
	ep := e.net.epoch[linkKey{e.ID, p}]
	e.net.mu.Unlock()
	return &sender{e: e, to: p, epoch: ep}, nil
}

type sender struct {
	e     *Endpoint
	to    peer.ID
	epoch int
}

func (s *sender) Close() error { return nil }
func (s *sender) Reset() error { return nil }

func (s *sender) SendMsg(ctx context.Context, m gsmsg.GraphSyncMessage) error {
	n := s.e.net
	k := linkKey{s.e.ID, s.to}
	n.mu.Lock()
	if n.epoch[k] != s.epoch {
		n.mu.Unlock()
		return fmt.Errorf("sim: stream to %s was reset (connection closed)", s.to)
	}
	idx := n.SendAttempts[k]
	n.SendAttempts[k] = idx + 1
	n.Attempts = append(n.Attempts, &Envelope{Seq: -1, From: s.e.ID, To: s.to, Msg: m})
	pol := n.SendPolicy
	n.mu.Unlock()
	out := SendOK
	if pol != nil {
		out = pol(s.e.ID, s.to, idx, m)
	}
	switch out {
	case SendFail:
		return fmt.Errorf("sim: send %d on %s->%s failed", idx, s.e.ID, s.to)
	case SendBlock:
		c := make(chan struct{})
		failed := false
		n.mu.Lock()
		n.blocked = append(n.blocked, blockedSend{k: k, c: c, fail: &failed})
		n.mu.Unlock()
		select {
		case <-c:
			if failed {
				return fmt.Errorf("sim: connection to %s closed while sending", s.to)
			}
		case <-ctx.Done():
			return ctx.Err()
		}
	}
	return n.enqueue(s.e.ID, s.to, m)
}

// ConnMgr records connection protection.
type ConnMgr struct {
	mu     sync.Mutex
	counts map[string]int
	Log    []string
}

func (c *ConnMgr) Protect(p peer.ID, tag string) {
	c.mu.Lock()
	c.counts[string(p)+"|"+tag]++
	c.Log = append(c.Log, "protect "+string(p)+" "+tag)
	c.mu.Unlock()
}

func (c *ConnMgr) Unprotect(p peer.ID, tag string) bool {
	c.mu.Lock()
	defer c.mu.Unlock()
	k := string(p) + "|" + tag
	c.Log = append(c.Log, "unprotect "+string(p)+" "+tag)
	if c.counts[k] > 0 {
		delete(c.counts, k) // libp2p semantics: a tag is a set member, Unprotect removes it
	}
	for kk := range c.counts {
		if len(kk) > len(string(p)) && kk[:len(string(p))+1] == string(p)+"|" {
			return true
		}
	}
	return false
}

// Protected lists the (peer|tag) entries still protected.
func (c *ConnMgr) Protected() []string {
	c.mu.Lock()
	defer c.mu.Unlock()
	var out []string
	for k, v := range c.counts {
		if v > 0 {
			out = append(out, k)
		}
	}
	sort.Strings(out)
	return out
}

// DescribeMsg renders a message compactly for diagnostics.
func DescribeMsg(m gsmsg.GraphSyncMessage) string {
	var sb bytes.Buffer
	for _, r := range m.Requests() {
		fmt.Fprintf(&sb, "REQ[%s %s root=%s exts=%v] ", r.Type(), short(r.ID().String()), shortCid(r.Root().String()), r.ExtensionNames())
	}
	for _, r := range m.Responses() {
		fmt.Fprintf(&sb, "RSP[%s st=%d md=", short(r.RequestID().String()), r.Status())
		r.Metadata().Iterate(func(c cid.Cid, a graphsync.LinkAction) {
			fmt.Fprintf(&sb, "%s:%s ", shortCid(c.String()), string(a)[:1])
		})
		fmt.Fprintf(&sb, "exts=%v] ", r.ExtensionNames())
	}
	for _, b := range m.Blocks() {
		fmt.Fprintf(&sb, "BLK[%s %dB] ", shortCid(b.Cid().String()), len(b.RawData()))
	}
	return sb.String()
}

func short(s string) string {
	if len(s) > 8 {
		return s[:8]
	}
	return s
}
func shortCid(s string) string {
	if len(s) > 8 {
		return s[len(s)-8:]
	}
	return s
}

// Transcript renders every sent envelope.
func (n *Net) Transcript() string {
	n.mu.Lock()
	defer n.mu.Unlock()
	var sb bytes.Buffer
	for _, e := range n.Sent {
		fmt.Fprintf(&sb, "#%d %s->%s %s\n", e.Seq, e.From, e.To, DescribeMsg(e.Msg))
	}
	return sb.String()
}

// SentSince returns the envelopes accepted by the network from index i on.
func (n *Net) SentSince(i int) []*Envelope {
	n.mu.Lock()
	defer n.mu.Unlock()
	if i >= len(n.Sent) {
		return nil
	}
	return append([]*Envelope(nil), n.Sent[i:]...)
}
