package sim

import (
	"bytes"
	"fmt"
	"io"
	"sync"

	"github.com/ipfs/go-cid"
	"github.com/ipld/go-ipld-prime"
	"github.com/ipld/go-ipld-prime/datamodel"
	cidlink "github.com/ipld/go-ipld-prime/linking/cid"
)

// Store is a map-backed block store with observation and fault hooks.
type Store struct {
	mu        sync.Mutex
	M         map[cid.Cid][]byte
	Writes    []cid.Cid          // committed writes, in order
	WriteData map[cid.Cid][]byte // last bytes committed per cid
	Reads     []cid.Cid
	Trusted   bool
	// ReadHook runs before each read (outside the lock); may return an error, panic or block.
	ReadHook func(c cid.Cid, path datamodel.Path) error
	// WriteHook runs before each commit.
	WriteHook func(c cid.Cid) error
}

func NewStore(initial map[cid.Cid][]byte, trusted bool) *Store {
	s := &Store{M: map[cid.Cid][]byte{}, WriteData: map[cid.Cid][]byte{}, Trusted: trusted}
	for c, d := range initial {
		s.M[c] = d
	}
	return s
}

func (s *Store) Has(c cid.Cid) bool {
	s.mu.Lock()
	defer s.mu.Unlock()
	_, ok := s.M[c]
	return ok
}

// Put adds a block behind the link system's back (test set-up).
func (s *Store) Put(c cid.Cid, d []byte) {
	s.mu.Lock()
	s.M[c] = d
	s.mu.Unlock()
}

func (s *Store) Snapshot() map[cid.Cid][]byte {
	s.mu.Lock()
	defer s.mu.Unlock()
	out := make(map[cid.Cid][]byte, len(s.M))
	for c, d := range s.M {
		out[c] = d
	}
	return out
}

func (s *Store) LinkSystem() ipld.LinkSystem {
	lsys := cidlink.DefaultLinkSystem()
	lsys.TrustedStorage = s.Trusted
	lsys.StorageReadOpener = func(lctx ipld.LinkContext, l ipld.Link) (io.Reader, error) {
		c := l.(cidlink.Link).Cid
		if h := s.ReadHook; h != nil {
			if err := h(c, lctx.LinkPath); err != nil {
				return nil, err
			}
		}
		s.mu.Lock()
		d, ok := s.M[c]
		s.Reads = append(s.Reads, c)
		s.mu.Unlock()
		if !ok {
			return nil, fmt.Errorf("block %s not found", c)
		}
		return bytes.NewReader(d), nil
	}
	lsys.StorageWriteOpener = func(lctx ipld.LinkContext) (io.Writer, ipld.BlockWriteCommitter, error) {
		var buf bytes.Buffer
		return &buf, func(l ipld.Link) error {
			c := l.(cidlink.Link).Cid
			if h := s.WriteHook; h != nil {
				if err := h(c); err != nil {
					return err
				}
			}
			d := append([]byte(nil), buf.Bytes()...)
			s.mu.Lock()
			s.M[c] = d
			s.Writes = append(s.Writes, c)
			s.WriteData[c] = d
			s.mu.Unlock()
			return nil
		}, nil
	}
	return lsys
}
