package sim

import (
	"context"
	"fmt"
	"os"
	"strings"
	"sync"
	"testing"
	"testing/synctest"
	"time"

	logging "github.com/ipfs/go-log/v2"
	"github.com/ipld/go-ipld-prime"
	"github.com/libp2p/go-libp2p/core/peer"

	"github.com/ipfs/go-graphsync"
	gsimpl "github.com/ipfs/go-graphsync/impl"

	"verif/harness/dagen"
)

func init() {
	if os.Getenv("VERIF_GSLOG") == "" {
		logging.SetAllLoggers(logging.LevelFatal)
		cfg := logging.GetConfig()
		cfg.Level = logging.LevelFatal
		cfg.Stderr = false
		cfg.Stdout = false
		logging.SetupLogging(cfg)
	}
}

// World is one simulation case inside a bubble.
type World struct {
	Ctx        context.Context
	Cancel     context.CancelFunc
	Net        *Net
	Insts      map[peer.ID]*Inst
	reqCancels []context.CancelFunc
	Steps      int
	// OnDeliver, when set, observes every envelope DeliverAll / Quiesce release.
	OnDeliver func(e *Envelope)
}

// Inst is a real GraphSync instance.
type Inst struct {
	ID     peer.ID
	GS     graphsync.GraphExchange
	Impl   *gsimpl.GraphSync
	Store  *Store
	End    *Endpoint
	cancel context.CancelFunc
}

// ReqResult collects everything a caller sees for one request.
type ReqResult struct {
	mu         sync.Mutex
	Visits     []dagen.Visit
	Errs       []error
	RespClosed bool
	ErrClosed  bool
	AfterClose int // deliveries after close (impossible on Go channels; kept for completeness)
	Cancel     context.CancelFunc
}

func (r *ReqResult) Snapshot() (visits []dagen.Visit, errs []error, rc, ec bool) {
	r.mu.Lock()
	defer r.mu.Unlock()
	return append([]dagen.Visit(nil), r.Visits...), append([]error(nil), r.Errs...), r.RespClosed, r.ErrClosed
}

// AddInstance creates a real instance attached to the simulated network.
func (w *World) AddInstance(id peer.ID, store *Store, opts ...gsimpl.Option) *Inst {
	end := w.Net.AddEndpoint(id)
	ctx, cancel := context.WithCancel(w.Ctx)
	gs := gsimpl.New(ctx, end, store.LinkSystem(), opts...)
	in := &Inst{ID: id, GS: gs, Impl: gs.(*gsimpl.GraphSync), Store: store, End: end, cancel: cancel}
	w.Insts[id] = in
	return in
}

// AddInstanceLS is AddInstance with a caller-built link system over the store.
func (w *World) AddInstanceLS(id peer.ID, store *Store, lsys ipld.LinkSystem, opts ...gsimpl.Option) *Inst {
	end := w.Net.AddEndpoint(id)
	ctx, cancel := context.WithCancel(w.Ctx)
	gs := gsimpl.New(ctx, end, lsys, opts...)
	in := &Inst{ID: id, GS: gs, Impl: gs.(*gsimpl.GraphSync), Store: store, End: end, cancel: cancel}
	w.Insts[id] = in
	return in
}

// AddScripted adds a peer with no receiver: messages to it are recorded in End.Received.
func (w *World) AddScripted(id peer.ID) *Endpoint { return w.Net.AddEndpoint(id) }

// Request issues a request and starts reader goroutines that always read.
func (w *World) Request(in *Inst, to peer.ID, root ipld.Link, sel ipld.Node, exts ...graphsync.ExtensionData) *ReqResult {
	return w.RequestCtx(w.Ctx, in, to, root, sel, exts...)
}

func (w *World) RequestCtx(parent context.Context, in *Inst, to peer.ID, root ipld.Link, sel ipld.Node, exts ...graphsync.ExtensionData) *ReqResult {
	ctx, cancel := context.WithCancel(parent)
	w.reqCancels = append(w.reqCancels, cancel)
	respCh, errCh := in.GS.Request(ctx, to, root, sel, exts...)
	res := &ReqResult{Cancel: cancel}
	go func() {
		for p := range respCh {
			v := dagen.Visit{Path: p.Path.String(), Node: p.Node, LastPath: p.LastBlock.Path.String(), NodePrint: dagen.PrintNode(p.Node)}
			if p.LastBlock.Link != nil {
				v.LastLink = p.LastBlock.Link.String()
			}
			res.mu.Lock()
			res.Visits = append(res.Visits, v)
			res.mu.Unlock()
		}
		res.mu.Lock()
		res.RespClosed = true
		res.mu.Unlock()
	}()
	go func() {
		for e := range errCh {
			res.mu.Lock()
			res.Errs = append(res.Errs, e)
			res.mu.Unlock()
		}
		res.mu.Lock()
		res.ErrClosed = true
		res.mu.Unlock()
	}()
	return res
}

// Wait blocks until every goroutine in the bubble is durably blocked.
func (w *World) Wait() { synctest.Wait() }

// DeliverAll delivers pending envelopes oldest-first until none remain
// (per-link FIFO, global send order), waiting for quiescence after each.
func (w *World) DeliverAll(maxSteps int) int {
	n := 0
	for {
		synctest.Wait()
		pl := w.Net.PendingLinks()
		if len(pl) == 0 {
			return n
		}
		if e := w.Net.Deliver(pl[0][0], pl[0][1]); e != nil && w.OnDeliver != nil {
			w.OnDeliver(e)
		}
		n++
		w.Steps++
		if maxSteps > 0 && n >= maxSteps {
			synctest.Wait()
			return n
		}
	}
}

// FinalAdvance is the amount of virtual time added at final quiescence so
// that every timer-driven retry/thaw has had many chances to fire. Every
// timer in go-graphsync that matters here is 100 ms (task-queue thaw ticker,
// message-queue retry back-off).
const FinalAdvance = 5 * time.Second

// Quiesce delivers everything, advances virtual time, and repeats until no
// message is pending: afterwards nothing in the system can make progress on
// its own, so a channel still open will never close.
func (w *World) Quiesce() {
	for i := 0; i < 50; i++ {
		w.DeliverAll(0)
		time.Sleep(FinalAdvance)
		synctest.Wait()
		if w.Net.PendingCount() == 0 {
			return
		}
	}
}

// Result of running a bubble.
type RunOutcome struct {
	Hung  bool   // bubble could not exit: goroutines remained blocked after teardown
	Panic string // a panic escaped the body (not the deadlock panic)
}

// Run executes body inside a synctest bubble with a fresh World, then tears
// everything down: cancels requests, releases blocked sends, closes instances.
func Run(t *testing.T, body func(w *World)) (out RunOutcome) {
	defer func() {
		if r := recover(); r != nil {
			s := fmt.Sprint(r)
			if strings.Contains(s, "deadlock") && strings.Contains(s, "bubble") {
				out.Hung = true
				return
			}
			out.Panic = s
		}
	}()
	synctest.Test(t, func(t *testing.T) {
		ctx, cancel := context.WithCancel(context.Background())
		w := &World{Ctx: ctx, Cancel: cancel, Net: NewNet(), Insts: map[peer.ID]*Inst{}}
		defer func() {
			// teardown: an executor blocked in reconciledloader.waitRemote is only
			// woken by request cancellation, so cancel every request first.
			for _, c := range w.reqCancels {
				c()
			}
			synctest.Wait()
			w.Net.ReleaseBlocked()
			synctest.Wait()
			for _, in := range w.Insts {
				in.cancel()
			}
			cancel()
			w.Net.Close()
			synctest.Wait()
		}()
		body(w)
	})
	return
}
