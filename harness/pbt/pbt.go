// Package pbt is the shared runner for every property check: it drives
// rapid with a seed/case-count derived from the environment the driver sets,
// counts cases (evaluations, distinct non-trivial, labels, exclusions),
// keeps samples, writes replay files for failures and replays them without
// rapid.
package pbt

import (
	"crypto/sha256"
	"encoding/binary"
	"encoding/json"
	"flag"
	"fmt"
	"os"
	"path/filepath"
	"runtime/debug"
	"sort"
	"strconv"
	"strings"
	"sync"
	"testing"
	"time"

	"pgregory.net/rapid"
)

// Verdict is what running one case yields.
type Verdict struct {
	Fail       string   // non-empty: the property was violated, with explanation
	NonTrivial bool     // case satisfies the property's non-triviality rule
	Labels     []string // classes the case belongs to (for the distribution report)
	Excluded   string   // non-empty: case belongs to a known-finding class and was not judged
	Skip       bool     // generator produced something outside the domain; not counted
	Note       string   // optional rendering kept with samples
}

func (v *Verdict) Failf(format string, a ...any) *Verdict {
	if v.Fail == "" {
		v.Fail = fmt.Sprintf(format, a...)
	}
	return v
}
func (v *Verdict) Label(l string) { v.Labels = append(v.Labels, l) }

// Run holds per-process state.
type Run struct {
	Prop    string
	Tier    string
	Seed    uint64
	Shard   int
	NShards int
	Scale   float64
	known   map[string]bool

	mu        sync.Mutex
	evals     int
	nontriv   int
	hashes    map[uint64]struct{}
	labels    map[string]int
	excluded  map[string]int
	counters  map[string]int
	samples   []any
	checks    map[string]int
	failures  []string
	start     time.Time
	replayers map[string]func(json.RawMessage) *Verdict
	exhaust   int
}

func envInt(k string, d int) int {
	if v, err := strconv.Atoi(os.Getenv(k)); err == nil {
		return v
	}
	return d
}

// Init reads the environment set by /verif/check.
func Init(prop string) *Run {
	r := &Run{Prop: prop, Tier: os.Getenv("VERIF_TIER"), Shard: envInt("VERIF_SHARD", 0), NShards: envInt("VERIF_NSHARDS", 1),
		known: map[string]bool{}, hashes: map[uint64]struct{}{}, labels: map[string]int{}, excluded: map[string]int{},
		counters: map[string]int{}, checks: map[string]int{}, start: time.Now(), replayers: map[string]func(json.RawMessage) *Verdict{}, Scale: 1}
	if r.Tier == "" {
		r.Tier = "quick"
	}
	if s, err := strconv.ParseUint(os.Getenv("VERIF_SEED"), 10, 64); err == nil {
		r.Seed = s
	}
	if s, err := strconv.ParseFloat(os.Getenv("VERIF_SCALE"), 64); err == nil && s > 0 {
		r.Scale = s
	}
	for _, k := range strings.Split(os.Getenv("VERIF_KNOWN"), ",") {
		if k != "" {
			r.known[k] = true
		}
	}
	return r
}

// Known reports whether key is an active (status known) finding whose class
// is to be excluded by construction.
func (r *Run) Known(key string) bool { return r.known[key] }

func (r *Run) Thorough() bool { return r.Tier == "thorough" }

// N picks a size by tier.
func (r *Run) N(quick, thorough int) int {
	if r.Thorough() {
		return thorough
	}
	return quick
}

func (r *Run) Count(name string, n int) {
	r.mu.Lock()
	r.counters[name] += n
	r.mu.Unlock()
}

func hashOf(b []byte) uint64 {
	s := sha256.Sum256(b)
	return binary.LittleEndian.Uint64(s[:8])
}

func (r *Run) record(check string, raw []byte, c any, v *Verdict) {
	r.mu.Lock()
	defer r.mu.Unlock()
	if v.Skip {
		r.counters["skipped:"+check]++
		return
	}
	r.checks[check]++
	if v.Excluded != "" {
		r.excluded[v.Excluded]++
		return
	}
	r.evals++
	for _, l := range v.Labels {
		r.labels[l]++
	}
	if v.NonTrivial {
		r.nontriv++
		h := hashOf(append([]byte(check+"|"), raw...))
		if _, ok := r.hashes[h]; !ok {
			r.hashes[h] = struct{}{}
			if len(r.samples) < 4 {
				s := map[string]any{"check": check, "case": c}
				if v.Note != "" {
					s["note"] = v.Note
				}
				if len(v.Labels) > 0 {
					s["labels"] = v.Labels
				}
				r.samples = append(r.samples, s)
			}
		}
	}
}

// AddExhaustive records n enumerated (hence distinct) cases of which nt are non-trivial.
func (r *Run) AddExhaustive(check string, n, nt int, sample any) {
	r.mu.Lock()
	defer r.mu.Unlock()
	r.evals += n
	r.exhaust += nt
	r.checks[check] += n
	if sample != nil && len(r.samples) < 6 {
		r.samples = append(r.samples, map[string]any{"check": check, "case": sample})
	}
}

type replayFile struct {
	Property string          `json:"property"`
	Check    string          `json:"check"`
	Message  string          `json:"message"`
	Case     json.RawMessage `json:"case"`
}

func (r *Run) replayPath() string {
	dir := os.Getenv("VERIF_REPLAY_DIR")
	if dir == "" {
		dir = "/verif/replays"
	}
	os.MkdirAll(dir, 0o755)
	return filepath.Join(dir, fmt.Sprintf("%s-shard%d.json", r.Prop, r.Shard))
}

// WriteReplay stores a failing case; the last one written in a process is the
// most shrunk.
func (r *Run) WriteReplay(check string, raw []byte, msg string) string {
	p := r.replayPath()
	b, _ := json.MarshalIndent(replayFile{r.Prop, check, msg, raw}, "", " ")
	os.WriteFile(p, b, 0o644)
	return p
}

// Def is a property: a generator of JSON-serialisable cases and a judge.
type Def[C any] struct {
	Name string
	Gen  func(*rapid.T) C
	Run  func(C) *Verdict
	// Journal: write the case to $VERIF_JOURNAL before running it, so that a
	// process death identifies the case that caused it (crash-class properties).
	Journal bool
}

// Register makes the case replayable by name.
func Register[C any](r *Run, d Def[C]) {
	r.replayers[d.Name] = func(raw json.RawMessage) *Verdict {
		var c C
		if err := json.Unmarshal(raw, &c); err != nil {
			return &Verdict{Fail: "bad replay case: " + err.Error()}
		}
		return safeRun(d.Run, c)
	}
}

// safeRun turns a panic escaping the code under test into a failed verdict, so
// that it is shrunk and saved like any other violation.
func safeRun[C any](f func(C) *Verdict, c C) (v *Verdict) {
	defer func() {
		if r := recover(); r != nil {
			v = &Verdict{Fail: fmt.Sprintf("panic while running the case: %v\n%s", r, debug.Stack())}
		}
	}()
	return f(c)
}

// Check runs d under rapid for the tier's number of cases (split across shards).
func Check[C any](t *testing.T, r *Run, d Def[C], quickN, thoroughN int) {
	Register(r, d)
	n := quickN
	if r.Thorough() {
		n = thoroughN
	}
	n = int(float64(n) * r.Scale)
	per := (n + r.NShards - 1) / r.NShards
	if per < 1 {
		per = 1
	}
	seed := r.Seed*1000003 + uint64(r.Shard)*7919 + uint64(len(r.checks))*104729 + 1
	flag.Set("rapid.checks", strconv.Itoa(per))
	flag.Set("rapid.seed", strconv.FormatUint(seed, 10))
	flag.Set("rapid.nofailfile", "true")
	if r.Thorough() {
		flag.Set("rapid.shrinktime", "60s")
	} else {
		flag.Set("rapid.shrinktime", "20s")
	}
	os.RemoveAll("testdata/rapid")
	failed := false
	rapid.Check(t, func(rt *rapid.T) {
		c := d.Gen(rt)
		raw, err := json.Marshal(c)
		if err != nil {
			rt.Fatalf("case not serialisable: %v", err)
		}
		if jp := os.Getenv("VERIF_JOURNAL"); jp != "" && d.Journal {
			b, _ := json.Marshal(replayFile{r.Prop, d.Name, "worker died while executing this case", raw})
			os.WriteFile(jp, b, 0o644)
		}
		v := safeRun(d.Run, c)
		if v == nil {
			v = &Verdict{}
		}
		if !failed {
			r.record(d.Name, raw, c, v)
		}
		if v.Skip {
			rt.Skip("outside domain")
		}
		if v.Fail != "" && v.Excluded == "" {
			failed = true
			p := r.WriteReplay(d.Name, raw, v.Fail)
			rt.Fatalf("%s: %s (replay %s)", d.Name, v.Fail, p)
		}
	})
	if failed {
		r.mu.Lock()
		r.failures = append(r.failures, d.Name)
		r.mu.Unlock()
	}
}

// Replay runs the case in $VERIF_REPLAY, bypassing rapid. Returns the verdict.
func (r *Run) Replay(t *testing.T) {
	path := os.Getenv("VERIF_REPLAY")
	if path == "" {
		t.Skip("VERIF_REPLAY not set")
	}
	b, err := os.ReadFile(path)
	if err != nil {
		t.Fatalf("read replay: %v", err)
	}
	var rf replayFile
	if err := json.Unmarshal(b, &rf); err != nil {
		t.Fatalf("parse replay: %v", err)
	}
	f, ok := r.replayers[rf.Check]
	if !ok {
		t.Fatalf("unknown check %q in replay", rf.Check)
	}
	reps := envInt("VERIF_REPLAY_REPS", 1)
	for i := 0; i < reps; i++ {
		v := f(rf.Case)
		if v != nil && v.Fail != "" {
			fmt.Printf("REPLAY-FAIL property=%s check=%s: %s\n", r.Prop, rf.Check, v.Fail)
			t.Fatalf("replay reproduces: %s", v.Fail)
		}
	}
	fmt.Printf("REPLAY-PASS property=%s check=%s\n", r.Prop, rf.Check)
}

type statsFile struct {
	Property string         `json:"property"`
	Shard    int            `json:"shard"`
	Evals    int            `json:"evaluations"`
	NonTriv  int            `json:"nontrivial_evaluations"`
	Exhaust  int            `json:"exhaustive_nontrivial"`
	Labels   map[string]int `json:"labels"`
	Excluded map[string]int `json:"excluded"`
	Counters map[string]int `json:"counters"`
	Checks   map[string]int `json:"checks"`
	Samples  []any          `json:"samples"`
	Failures []string       `json:"failures"`
	WallS    float64        `json:"wall_s"`
}

// Flush writes the shard's counters to $VERIF_STATS_OUT (and the distinct
// hashes beside it) for the driver to merge.
func (r *Run) Flush() {
	out := os.Getenv("VERIF_STATS_OUT")
	if out == "" {
		return
	}
	r.mu.Lock()
	defer r.mu.Unlock()
	sf := statsFile{r.Prop, r.Shard, r.evals, r.nontriv, r.exhaust, r.labels, r.excluded, r.counters, r.checks, r.samples, r.failures, time.Since(r.start).Seconds()}
	b, _ := json.Marshal(sf)
	os.WriteFile(out, b, 0o644)
	hs := make([]uint64, 0, len(r.hashes))
	for h := range r.hashes {
		hs = append(hs, h)
	}
	sort.Slice(hs, func(i, j int) bool { return hs[i] < hs[j] })
	buf := make([]byte, 8*len(hs))
	for i, h := range hs {
		binary.LittleEndian.PutUint64(buf[8*i:], h)
	}
	os.WriteFile(out+".hashes", buf, 0o644)
}

// Main is the TestMain body shared by property packages.
func Main(m *testing.M, r *Run) {
	code := m.Run()
	r.Flush()
	if jp := os.Getenv("VERIF_JOURNAL"); jp != "" {
		os.Remove(jp)
	}
	os.Exit(code)
}

// WriteReplayCase stores a failing case found outside rapid (enumeration).
func (r *Run) WriteReplayCase(check string, c any, msg string) string {
	raw, _ := json.Marshal(c)
	r.mu.Lock()
	r.failures = append(r.failures, check)
	r.mu.Unlock()
	return r.WriteReplay(check, raw, msg)
}
