#!/usr/bin/env python3
"""Fill the 'quick run' column of DESIGN.md section 11 from the evidence files of the last quick runs."""
import json, re, os
V = os.path.dirname(os.path.abspath(__file__))
s = open(os.path.join(V, "DESIGN.md")).read()
a = s.index("## 11. What was built"); b = s.index("## 12. Defects found")
sec = s[a:b].split("\n")
for k, l in enumerate(sec):
    m = re.match(r"\| (C\d\d)([^|]*)\| ([^|]*)\| ([^|]*)\| ([^|]*)\|$", l)
    if not m:
        continue
    pid = m.group(1)
    try:
        e = json.load(open(os.path.join(V, "evidence", pid + ".json")))
    except Exception:
        continue
    c = e["coverage"]
    cell = " %s cases, %s non-trivial, ~%d s (%s, seed %d) " % (format(c["evaluations"], ",").replace(",", " "), format(c["distinct_nontrivial"], ",").replace(",", " "), round(e["wall_s"]), e["tier"], e["seed"])
    sec[k] = "| %s%s| %s|%s| %s|" % (pid, m.group(2), m.group(3), cell, m.group(5))
s = s[:a] + "\n".join(sec) + s[b:]
open(os.path.join(V, "DESIGN.md"), "w").write(s)
