#!/bin/sh
# Offline setup: warm the build cache by compiling every check's test binary once.
set -e
cd "$(dirname "$0")"
export GOFLAGS=-mod=mod GOPROXY=off
unset GOTOOLCHAIN GOSUMDB || true
mkdir -p .build evidence replays
cd harness
go vet ./pbt >/dev/null 2>&1 || true
for d in props/*/; do
  go test -c -tags verif -o /dev/null "./$d" || exit 1
done
echo setup ok
