#!/usr/bin/env python3
"""Regenerates MANIFEST.json from checks_config.py (run after editing the config)."""
import json, os, sys
sys.path.insert(0, os.path.dirname(os.path.abspath(__file__)))
from checks_config import CHECKS, NOT_APPLICABLE, HOOK_COMMITS

props = [json.loads(l)["id"] for l in open(os.path.join(os.path.dirname(__file__), "properties.jsonl"))]
checks = []
for pid in props:
    if pid not in CHECKS:
        continue
    c = CHECKS[pid]
    checks.append({
        "property_id": pid,
        "quick_cmd": "./check %s --tier quick" % pid,
        "thorough_cmd": "./check %s --tier thorough" % pid,
        "evidence_file": "/verif/evidence/%s.json" % pid,
        "replay_cmd_template": "./check %s --replay {path}" % pid,
        "engine": c.get("engine", "harness"),
        "level_claimed": {"category": c["level"], "text": c["level_text"], "design_ref": c.get("design_ref", "DESIGN.md")},
        "level_note": c["level_note"],
        "technique": c["technique"],
    })
na = [{"property_id": p, "reason": NOT_APPLICABLE.get(p, "no check built yet in this session; see DESIGN.md")} for p in props if p not in CHECKS]
m = {
    "version": 1,
    "setup_cmd": "./setup.sh",
    "hooks": {
        "guard": "verif",
        "enable": "go test -tags verif (the harness module under /verif/harness replaces github.com/ipfs/go-graphsync with /repo and builds every check with -tags verif)",
        "baseline_off_cmd": "cd /repo && GOFLAGS=-mod=mod go test -vet=off -count=1 -timeout 25m ./... && cd testplans/graphsync && GOFLAGS=-mod=mod go test -vet=off -count=1 -timeout 25m ./...",
        "source_commits": HOOK_COMMITS,
        "add_only": True,
    },
    "engines": [
        {"name": "harness", "path": "/verif/harness", "serves_properties": [c["property_id"] for c in checks],
         "kind_free_text": "Go module: rapid v1.3.0 property-based tests (stateful/model-based, metamorphic, differential), bounded-exhaustive enumeration, testing/synctest bubble simulator around real impl.New instances, native go fuzz targets; python3 driver ./check shards, merges evidence, replays"},
    ],
    "checks": checks,
    "not_applicable": na,
    "notes": "All checks are generated-input search against explicit oracles (property-based testing / fuzzing). See DESIGN.md. KNOWN_FINDINGS.jsonl lists genuine defects (known / fixed).",
}
json.dump(m, open(os.path.join(os.path.dirname(__file__), "MANIFEST.json"), "w"), indent=1)
print("checks:", len(checks), "not_applicable:", len(na))
