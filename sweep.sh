#!/bin/sh
# usage: ./sweep.sh quick "2 3 4"   |   ./sweep.sh thorough "1"
# runs every registered check at the given seeds without touching the evidence files; prints one line per run
tier=$1; seeds=$2
ids=$(python3 -c "import json;print(' '.join(c['property_id'] for c in json.load(open('MANIFEST.json'))['checks']))")
for s in $seeds; do for id in $ids; do
  t0=$(date +%s)
  out=$(./check $id --tier $tier --seed $s --no-evidence 2>&1); rc=$?
  echo "$tier seed=$s $id rc=$rc $(( $(date +%s) - t0 ))s $(echo "$out" | grep '^OK\|^VIOLATION\|^INCONCLUSIVE' | head -2 | cut -c1-200 | tr '\n' ' ')"
  if [ $rc -ne 0 ]; then echo "$out" | grep -v 'rapid\] draw\|^KNOWN' | tail -15 | cut -c1-400; fi
done; done
