#!/usr/bin/env python3
"""Render a replay file's DAG case compactly."""
import json,sys
d=json.load(open(sys.argv[1])); print(d['message'][:600]); c=d['case']
def val(v):
    k=v['k']
    if k=='link': return 'L%d'%v.get('l',0)
    if k=='map': return '{'+','.join('%s:%s'%(kk,val(vv)) for kk,vv in zip(v.get('keys',[]),v.get('vals',[])))+'}'
    if k=='list': return '['+','.join(val(x) for x in v.get('vals',[]))+']'
    return k
def sel(s):
    k=s['k']; subs=s.get('subs',[])
    if k=='match': return '.'
    if k=='edge': return '@'
    if k=='rec': return 'R%s(%s)'%(s.get('limit',0),sel(subs[0]))
    if k=='fields': return 'f{'+','.join('%s:%s'%(f,sel(x)) for f,x in zip(s['fields'],subs))+'}'
    if k=='union': return '|('+','.join(sel(x) for x in subs)+')'
    return '%s%s(%s)'%(k,(s.get('i',''),s.get('j','')) if k in('index','range') else '',sel(subs[0]))
dag=c.get('dag') or c.get('base',{}).get('dag')
for i,b in enumerate(dag['blocks']): print(i, 'raw' if b.get('raw') else val(b['node']))
cc=c if 'sel' in c else c.get('base',c)
print('sel',sel(cc['sel'])); print('split',cc.get('split'))
for k,v in c.items():
    if k not in ('dag','sel','split','base'): print(k,v)
