# Per-property driver configuration: package, tiers, evidence text.
CHECKS = {}

_ALLOC_ASSUME = [
    "sum of all amounts in a history < 2^63 (uint64 wrap-around is outside the claimed domain)",
    "AllocateBlockMemory/Release* are called sequentially (the allocator serialises callers with its own mutex)",
    "'earlier-requested waiting allocation' in C14 is read as the head of its peer's queue",
]
CHECKS["C13"] = dict(
    pkg="props/c13", level="exploration",
    rule="histories of alloc/release/releasePeer over 1-3 peers: (a) EVERY history of the stated length over 2 peers x amounts {1,2,3} (14-op alphabet) for limit pairs (4,3),(5,2),(3,3), each followed by release of every peer; (b) rapid-generated histories up to 60 ops with boundary amounts {0,1,2,3,P/2,P,P+1,T/2,T,T+1} and a large-value class. Oracle: totals reported by AllocatedForPeer/Stats equal granted-minus-released computed from the grants the implementation was observed to make; limits never exceeded; clamped release; all-released => nothing allocated or pending. Non-trivial: a waiter is granted as a consequence of a release inside the history and >=2 peers take part. Distinct: enumerated histories are distinct by construction; random ones by hash of the case.",
    exhaustive_scope="all histories of length 5 (quick) / 7 (thorough) over the 14-operation alphabet, 3 limit pairs; random histories beyond that are sampled, not exhaustive",
    assumptions=_ALLOC_ASSUME,
    quick=dict(shards=2, timeout=300), thorough=dict(shards=16, timeout=3000),
)
CHECKS["C14"] = dict(CHECKS["C13"], pkg="props/c14",
    rule=CHECKS["C13"]["rule"].replace("Oracle: totals reported by AllocatedForPeer/Stats equal granted-minus-released computed from the grants the implementation was observed to make; limits never exceeded; clamped release; all-released => nothing allocated or pending.",
        "Oracle: after every operation the status (granted / failed / still waiting) of every allocation ever requested equals that of a reference model written from the statement: grant at once iff the peer has no waiter and both limits fit; otherwise wait; on release grant the earliest-requested head-of-peer waiter that fits its own peer's limit iff it fits the total, repeat; releasePeer fails the peer's waiters before returning."))

NOT_APPLICABLE = {}
HOOK_COMMITS = ["197be81"]

_T = "property-based testing (pgregory.net/rapid)"
CHECKS["C13"].update(
    level_text="Bounded-exhaustive enumeration of every allocator history up to a fixed length over a small alphabet, plus rapid-generated longer histories, each judged after every operation against limit/accounting invariants derived from the allocator's own observed grants. Exhaustive inside the stated scope, sampled outside it; no claim of absence beyond that.",
    level_note="Trusts the reference ledger (40 lines) and Go channel semantics; amounts summing above 2^63 are outside the domain.",
    technique="bounded-exhaustive enumeration + rapid model-based testing against an accounting ledger", design_ref="DESIGN.md §5 C13")
CHECKS["C14"].update(
    level_text="Same histories as C13, judged against a reference model of grant timing and order written from the property statement; exhaustive in the stated scope, sampled beyond.",
    level_note="Trusts the 60-line reference model; 'earlier-requested waiting allocation' is read as head of its peer's queue (the reading favourable to the code).",
    technique="bounded-exhaustive enumeration + rapid model-based testing against a reference allocator", design_ref="DESIGN.md §5 C14")

_SIM_ASSUME = [
    "go-ipld-prime's selector walk (traversal.WalkAdv) is the trusted reference; the oracle shares it with the implementation and nothing of go-graphsync",
    "stores are in-memory maps; sha2-256 collision resistance",
    "runs inside a testing/synctest bubble: quiescence is exact, time is virtual; final quiescence = nothing deliverable + 5 s of virtual time (every timer in go-graphsync that matters is 100 ms)",
]
CHECKS["C02"] = dict(
    pkg="props/c02", level="exploration", gomaxprocs=1,
    rule="case = generated DAG (1-12 blocks quick / 1-30 thorough; raw and dag-cbor blocks, nested inline maps/lists holding links, shared sub-DAGs) x generated selector (recursive explore-all / fields / union / index / range bodies, depth limits) x placement of every block in {requestor, responder, both, neither}; two real impl.New instances exchange over the simulated network, honest in-order delivery. Oracle: reference two-store traversal on plain go-ipld-prime: exact delivered (path,node,last-block) sequence, exact multiset of RemoteMissingBlockErr{link,path}, no other error, final requestor store = initial U blocks resolved from the responder, both channels closed. Non-trivial: partial split (each side holds a reached block the other lacks) AND (a missing link OR a link inside an inline node OR a block reached twice). Distinct by hash of the case.",
    assumptions=_SIM_ASSUME + ["responder is given the root whenever anything is needed from it (root missing => content-not-found is C03/C04 behaviour)", "cases in the class of known finding C02-K2 are excluded by construction and counted"],
    quick=dict(shards=2, timeout=400), thorough=dict(shards=16, timeout=3000),
    level_text="Random search over DAG x selector x store split against an independent reference traversal with exact-equality oracles on delivered nodes, errors and stored blocks. Finds violations with small witnesses (two defects found and fixed, one recorded); establishes nothing beyond the cases run.",
    level_note="Trusts go-ipld-prime's walk and the 40-line two-store resolver in dagen/ref.go. Honest FIFO schedule only (schedules are C06/C20).",
    technique="rapid property-based testing, differential against a reference two-store traversal", design_ref="DESIGN.md §4 C02")

CHECKS["C24"] = dict(
    pkg="props/c24", level="exploration", gomaxprocs=1,
    rule="C02-style cases (DAG x selector x 4-way store split) plus, in a quarter of them, user-supplied do-not-send-first-blocks (0-6) and/or do-not-send-cids (0-4 DAG blocks); two real instances; everything the requestor and responder put on the wire is examined. Oracle: (a) requestor store covers the whole reference traversal => zero messages sent and the request completes; (b) otherwise exactly one New request whose skip count equals the number of link loads the reference resolves locally before the first local miss (max with the user's value; 0/absent when none); (c) per response message, every block carried is attributed to a Present metadata entry of that message, and none has responder-traversal index <= skip count, is in the user's do-not-send set, or was already transmitted for the request. Non-trivial: skip count >= 1 with a partial split, or a fully local request, or a user extension present.",
    assumptions=_SIM_ASSUME + ["index ambiguity resolved in the code's favour: a block must be withheld only if its index counting every link traversal (present or missing) is <= the skip count"],
    quick=dict(shards=2, timeout=400), thorough=dict(shards=16, timeout=3000),
    level_text="Random search over the same case space as C02 with wire-level oracles on what is sent; nothing beyond the cases run is established.",
    level_note="Trusts the reference traversal for the expected skip count and the wire decoder for what was transmitted.",
    technique="rapid property-based testing with a wire-transcript oracle derived from a reference traversal", design_ref="DESIGN.md §4 C24")

CHECKS["C07"] = dict(
    pkg="props/c07", level="exploration", gomaxprocs=1,
    rule="C02-style case (3 in 4 with the responder holding everything and the requestor nothing: the exact sub-case) x enforcing site (requestor: MaxLinksPerOutgoingRequests + outgoing-request hook MaxLinks; responder: MaxLinksPerIncomingRequests + incoming-request hook MaxLinks) x global and per-request budgets each from {0,1,2,needed-1,needed,needed+1,1000}; N = smaller non-zero. Oracle: blocks loaded by the enforcing peer (requestor: validated-block hook calls; responder: Present metadata entries) <= N always; link loads needed <= N => no budget error / failure status and outcome identical to the unbudgeted reference; full stores and needed > N => exactly N blocks (requestor) / exactly N metadata entries (responder) then *traversal.ErrBudgetExceeded on the error channel / a failure status. Non-trivial: N in {1,needed-1,needed,needed+1} or both budgets set.",
    assumptions=_SIM_ASSUME + ["partial stores assert only the cap and 'no failure when attempts <= N' (ipld-prime charges attempts; the statement counts blocks)"],
    quick=dict(shards=2, timeout=400), thorough=dict(shards=16, timeout=3000),
    level_text="Random search with budgets placed at the boundaries of what each generated traversal needs; exact-count oracles. One defect (N=1) found and fixed.",
    level_note="Trusts the reference traversal for 'needed'.",
    technique="rapid property-based testing, boundary-value budgets against a reference traversal", design_ref="DESIGN.md §4 C07")

CHECKS["C03"] = dict(
    pkg="props/c03", level="exploration", gomaxprocs=1,
    rule="one real responder (store = generated subset of a generated DAG), a scripted requestor sending 1-2 New requests one after the other, each with a generated mix of do-not-send-first-blocks (0-5), do-not-send-cids (0-4 blocks), dedup-by-key, or one malformed extension payload. Oracle (reference traversal over the responder's store on plain ipld-prime): concatenated metadata across response messages = the reference link-load list, each marked Present/Missing; every block that must be sent (present, index > skip, not in do-not-send-cids, first occurrence) is in the same message as its metadata entry, byte-identical to the store, carried once; no other block; exactly one terminal status, last: complete-full iff nothing missing, complete-partial otherwise, content-not-found iff the root is missing; malformed payload => failed-unknown. Non-trivial: >= 3 link loads and a missing link, a repeated link or an extension.",
    assumptions=_SIM_ASSUME + ["a repeated link whose first occurrence fell inside the skipped prefix MAY be sent or withheld (the statement is read in the code's favour)"],
    quick=dict(shards=2, timeout=400), thorough=dict(shards=16, timeout=3000),
    level_text="Random search over DAG x responder store x selector x extension combinations with an exact wire-transcript oracle from an independent reference traversal.",
    level_note="Trusts go-ipld-prime's walk and the wire decoder.",
    technique="rapid property-based testing, wire transcript vs reference traversal", design_ref="DESIGN.md §4 C03")

CHECKS["C08"] = dict(
    pkg="props/c08", level="exploration", gomaxprocs=2,
    rule="selector AST drawn from the full grammar (matcher incl. subset, explore-all/fields/index/range/union, recursive with limit in {none,0,1,50,99,100,101,10^6,MaxInt64} and optional stop-at, interpret-as, edges; nesting <= 5; field names that coincide with selector keywords; optional extra ignored entries shaped like nested recursions), rendered by hand and kept only if ipld-prime's ParseSelector accepts it. Oracle by construction: ValidateMaxRecursionDepth(node,100) (on the built node and on its dag-cbor wire form) errs iff the AST contains a recursion that is unbounded or > 100; second check: a default-configured real responder in the simulator answers RequestRejected iff so. Non-trivial: a recursive exploration nested under another clause (labels per parent kind).",
    assumptions=["well-formed = accepted by go-ipld-prime's ParseSelector", "maximum depth 100 is impl's constant maxRecursionDepth"],
    quick=dict(shards=2, timeout=300), thorough=dict(shards=16, timeout=3000),
    level_text="Grammar-based random generation with ground truth known by construction; 30k selectors per quick run plus 1.2k end-to-end through a real responder. One defect (interpret-as) found and fixed.",
    level_note="Trusts the AST's own bad() predicate (8 lines) and ParseSelector as the definition of well-formed.",
    technique="grammar-based property testing with ground truth by construction", design_ref="DESIGN.md §6 C08")

CHECKS["C11"] = dict(
    pkg="props/c11", level="exploration", gomaxprocs=2,
    rule="messages built through the public constructors from a generator covering the v2 schema: New/Cancel/Update requests (16-byte IDs; roots of CID v0/v1, 7 codecs, 17 hash functions incl. identity and truncated digests, or absent; selectors from the traversal generator, arbitrary Any trees, or absent; priorities 0, +-1, int32 extremes), responses (all 14 statuses, metadata lists with all 4 actions and repeated links, or absent), extension maps (absent / nil / null / scalars / nested maps and lists, the three known names and odd names), blocks (any prefix as above, 0 B - 64 KiB); streams of 1-5 messages. Oracle: FromNet(ToNet(m)) equals m under accessor-level, map-order-insensitive equality (nil extension payload == IPLD null); a stream written into one buffer decodes message by message through one msgio reader and then yields io.EOF; cid-set / dedup-key / skip-count payloads decode to the encoded values both directly and through a request on the wire. Non-trivial: >= 2 of {absent optional, zero priority, null/nested extension, non-default CID, identity CID, repeated metadata link, stream > 1}.",
    assumptions=["a top-level IPLD null selector is not expressible (`sel optional Any`, not nullable) and is excluded", "hash functions are those go-multihash registers by default"],
    quick=dict(shards=2, timeout=300), thorough=dict(shards=16, timeout=3000),
    level_text="Round-trip property over generated well-formed messages and streams; equality written against public accessors only.",
    level_note="Trusts the 100-line equality in msggen and go-msgio framing.",
    technique="rapid round-trip property testing", design_ref="DESIGN.md §6 C11")

CHECKS["C18"] = dict(
    pkg="props/c18", level="exploration", gomaxprocs=2,
    rule="sequences of 1-40 operations {subscribe, unsubscribe-all, publish, close-topic, shutdown, sync} over 3 topics x 3 recording subscribers against a started publisher inside a synctest bubble (Wait() at every sync point, so the asynchronous command loop has drained before comparison). Oracle: reference model of subscriptions: per (subscriber, topic) the exact ordered sequence of events published while subscribed, exactly one OnClose when the subscription ends (close, unsubscribe or shutdown), nothing afterwards; Subscribe/Unsubscribe return false after shutdown; duplicate subscribe is idempotent. Non-trivial: >= 2 subscribers on one topic and a later unsubscribe/close that ends one of them.",
    assumptions=["the publisher is started before use and no subscriber calls back into the publisher (as every caller in go-graphsync does)"],
    quick=dict(shards=2, timeout=300), thorough=dict(shards=16, timeout=3000),
    level_text="Stateful model-based testing of the publisher with exact quiescence; 40k sequences per quick run.",
    level_note="Trusts the 40-line subscription model.",
    technique="rapid stateful model-based testing in a synctest bubble", design_ref="DESIGN.md §5 C18")

CHECKS["C19"] = dict(
    pkg="props/c19", level="exploration", gomaxprocs=2,
    rule="sequences of 1-50 operations over 4 request ids x 6 links for one peer: open (optional dedup key from {k1,k2}, ignore list, skip count, applied in prepareQuery's order), traverse(request, link, present|missing), finish / finish-with-error / clear; driven against the real ResponseAssembler (streams + Transaction, message built with the real messagequeue.Builder) and, for the default scope, the bare LinkTracker. Oracle (model: per scope, link -> number of in-progress present traversals): block transmitted iff present AND index > skip AND nobody in the scope (ignore lists included) has it in progress; BlockData index/size-on-wire agree; FinishRequest is complete-full iff that request recorded no missing link (status on the wire too); whenever every request has finished, TrackingEmpty(peer) (verif hook) and LinkTracker.Empty() hold and a later request is sent every block again. Request ids are reused after finishing. Non-trivial: two overlapping requests in one scope share a link and one finishes while the other continues.",
    assumptions=["extensions are applied before any traversal, as prepareQuery does", "a request id is not reused while that request is live"],
    quick=dict(shards=2, timeout=300), thorough=dict(shards=16, timeout=3000),
    level_text="Stateful model-based testing of link tracking through the real assembler; 20k sequences per quick run.",
    level_note="Trusts the 50-line model; internal emptiness is observed through one add-only verif-tagged accessor.",
    technique="rapid stateful model-based testing", design_ref="DESIGN.md §5 C19")

CHECKS["C01"] = dict(
    pkg="props/c01", level="exploration", gomaxprocs=1,
    rule="one real requestor (store = generated genuine subset of a generated true DAG, TrustedStorage on or off) against a scripted responder that plays the honest transcript of the full traversal, chunked into messages of 1-4 entries, after 0-8 generated mutations: swap / drop / duplicate metadata entries, relink an entry to another CID of the DAG, of an unrelated generated DAG or of nothing, flip the action among all four, omit or move a block, right prefix with wrong bytes, wrong prefix (codec / hash function / identity) with right bytes, attach unrequested or foreign blocks, replay a message, change a message's status to any of 7, merge messages. Everything is encoded and decoded through message/v2. Oracle: every delivered ResponseProgress is (path, node, last-block) of the true DAG's full traversal; every committed write is a selector-reachable CID; every stored block's bytes equal the DAG's and hash to their CID; store after is a subset of before U reachable. Non-trivial: >= 1 mutation took effect, the request went remote, and the requestor consumed remote items (a write happened or verification rejected something).",
    assumptions=_SIM_ASSUME + ["only map-backed link systems (trusted and untrusted) are covered"],
    quick=dict(shards=2, timeout=400), thorough=dict(shards=16, timeout=3000),
    level_text="Random adversarial transcripts derived from honest ones by structured mutation, judged by membership in the true traversal; no completeness or order is asserted (that is C02).",
    level_note="Trusts the reference full traversal and sha2-256.",
    technique="rapid property-based testing with mutation-based adversarial transcripts", design_ref="DESIGN.md §4 C01")

CHECKS["C09"] = dict(
    pkg="props/c09", level="exploration", gomaxprocs=1,
    rule="C02-style exchange between two real instances run twice: alone, and with a scripted third peer that, before generated delivery steps (0-8) or after the exchange, sends responses carrying the live request id: any of the 14 statuses, 0-3 metadata entries over the DAG's CIDs with any action, 0-2 genuine blocks, and extensions from {trigger/error, trigger/update, trigger/pause, other}. The requestor registers a response hook and a block hook that terminate / update / pause on seeing a trigger extension and record the peer they were called with. Oracle (differential): no hook is ever invoked with the third peer's id; nothing is sent to the third peer; the sequence of request messages (types) sent to the genuine responder is identical; delivered nodes, error multiset, stored blocks, channel closure and block-hook invocations are identical to the run without the intruder. Non-trivial: an intrusion arrives while the request's channels are still open. Second scenario: 1-3 requests at once (own dedup scope and store each), some pausing themselves from the block hook or held by a responder-side storage gate, a generated list of deliveries, requestor API pause / unpause and third-peer messages that name one or SEVERAL of the issued request ids in one message (any of 8 statuses, trigger extensions, 0-3 metadata entries and blocks); run with and without the third peer's messages (they are delivered atomically, so the rest of the schedule is identical): for requests still listed by the requestor when such a message arrives, no response hook is invoked with the third peer as sender and nothing is sent to it; every request's delivered nodes, errors, channel closure and stored blocks, and the number of cancel / update requests sent to the genuine responder, are identical. Cases in two known-finding classes of C06 (paused-and-resumed requests) are excluded and counted.",
    assumptions=_SIM_ASSUME + ["a response naming a request that has already ended reaches the hooks whoever sends it (also the genuine responder's late messages do): it cannot affect a request and is not judged", "response-hook invocation counts are not compared (they depend on how the responder batches messages)"],
    quick=dict(shards=2, timeout=400), thorough=dict(shards=16, timeout=3000),
    level_text="Differential random testing: every case is its own control. One defect (hooks before the peer filter) found and fixed.",
    level_note="Trusts the honest run as the reference; both runs use the same deterministic delivery order.",
    technique="rapid differential testing with an injected third peer", design_ref="DESIGN.md §4 C09")

CHECKS["C10"] = dict(
    pkg="props/c10", level="exploration", gomaxprocs=1,
    rule="one real responder holding a generated DAG serves scripted peer A (1-2 New requests; the first is held in progress by an outgoing-block-hook pause at block 1-4, by a storage-read gate that keeps it Running, or not at all, and later released by A's update / by opening the gate) while scripted peer B sends 1-3 messages carrying A's request ids: cancel, update (extension that would unpause, that would make the update hook terminate, or inert) or new (different root, matcher selector), placed while the response is held, after release, or after completion. Run twice: without and with B. Oracle (differential, batching boundaries normalised away): per request the concatenated metadata, the set of blocks sent to A and the sequence of non-partial statuses are identical; completed / requestor-cancelled / network-error listener events for A are identical; PeerState(A) at the end is identical. Non-trivial: an intrusion arrives while the targeted response is still listed in PeerState(A).",
    assumptions=_SIM_ASSUME,
    quick=dict(shards=2, timeout=400), thorough=dict(shards=16, timeout=3000),
    level_text="Differential random testing with the victim's response pinned in each live state (paused, running, queued/completing). One defect (no sender check) found and fixed.",
    level_note="Trusts the run without the intruder as reference.",
    technique="rapid differential testing with an injected second peer", design_ref="DESIGN.md §4 C10")

CHECKS["C04"] = dict(
    pkg="props/c04", level="fault_enumeration", gomaxprocs=1, crash_class=True,
    rule="one real requestor (store = generated subset) against a scripted responder that, once it has received the New request, plays the honest transcript (1-3 entries per message) up to a generated cut (0-8 messages) followed by a generated ending (silence or any of 8 terminal statuses); at generated steps the caller cancels through its context or the Cancel API, pauses / unpauses, or the peer disconnects; response hook errors on the n-th response, block hook errors or pauses on the n-th block; the requestor's first 0-3 sends fail with MessageSendRetries 1-2, or every connect fails. Every case is journaled before it runs (a double close / send on a closed channel kills the worker). Oracle at final quiescence (+5 s virtual): terminal status delivered to a live request (and no re-request afterwards) or caller cancelled a live request => both channels closed and every Cancel() call returned; caller cancellation of a live request => RequestClientCancelledErr reported and a Cancel for the id handed to the network; failure status S delivered to a live request with no earlier local cause => an error equal to S.AsError() reported. Paused requests are unpaused at the end unless the caller cancelled. Non-trivial: a cancel or terminal status lands while the request is listed queued / running / paused.",
    assumptions=_SIM_ASSUME + ["a scripted responder answers only after receiving the New request", "duplicated terminal errors are not failed (the statement does not say exactly one)"],
    quick=dict(shards=2, timeout=400), thorough=dict(shards=16, timeout=3000),
    level_text="Generated fault/cancel scripts over generated transcripts with a quiescence-based termination oracle; hangs are definite (nothing deliverable, virtual time advanced). One defect (cancel then pause) found and fixed.",
    level_note="Intra-step goroutine interleavings are not controlled.",
    technique="rapid fault-script testing in a synctest bubble with a termination oracle at quiescence", design_ref="DESIGN.md §4 C04")

_MQ_ASSUME = [
    "real ResponseAssembler -> PeerMessageManager -> MessageQueue -> Allocator stack over the simulator's gated network inside a synctest bubble; connection notifications reach the peer manager as libp2p's notifee would deliver them; a sender dies with its connection",
    "every transaction fits under both memory limits (a reservation larger than a limit can never be granted)",
    "Go's select picks among ready cases at random, so some histories are schedule-dependent: replays are repeated",
]
CHECKS["C15"] = dict(
    pkg="props/c15", level="fault_enumeration", gomaxprocs=1, replay_reps=20,
    rule="histories of 1-14 operations over 2 peers x 3 requests: transactions of 1-4 response operations (blocks 1 B - 1.9 KB, or up to 300 KiB in the thorough tier so that transactions spill over several messages; extension data 0 - 1.2 KB; status; finish) issued through real response streams by one worker per request, connect / disconnect notifications, stalling and un-stalling a peer's sends; 0-4 SendMsg failures and 0-3 connect failures at generated indices, 1-3 retries, small per-peer / total limits so that reservations wait; a quarter of the cases (C17: half) are built around the pattern 'send stalls, peer disconnects, is sent to again, reconnects, send resumes', a quarter around 'a send fails as often as it is retried while further parts of the same request are queued behind it or wait for memory', an eighth around 'several messages of 60-500 KiB pile up behind a stalled send'. Oracle: no data is queued after its reservation failed; no release exceeds what the peer holds; at final quiescence (every gate open, virtual time advanced repeatedly) nothing is still waiting for memory and every peer's and the total accounted memory is zero. Non-trivial: a request with >= 2 messages and a send/connect fault, or extension data.",
    assumptions=_MQ_ASSUME + ["histories in the classes of known findings C16-built-after-queue-exit and C15-old-queue-releases-successor are excluded and counted; both class predicates are computed from the history up to the final observation, never from the harness's own teardown"],
    quick=dict(shards=2, timeout=400), thorough=dict(shards=16, timeout=3000),
    level_text="Generated operation/fault histories against recording wrappers around the real allocator; exact zero-balance oracle at quiescence.",
    level_note="Observes the allocator through a wrapper; intra-step interleavings are whatever the Go scheduler picks.",
    technique="rapid fault-history testing of the real queue stack with an accounting oracle", design_ref="DESIGN.md §5 C15")
CHECKS["C16"] = dict(CHECKS["C15"], pkg="props/c16",
    rule=CHECKS["C15"]["rule"].split("Oracle:")[0] + "Every (message builder, request) pair a party attached itself to gets its own recording subscriber. Oracle at final quiescence: each attachment was told exactly one of Sent / Error, never both, never twice, and Queued never follows it; an attachment that heard nothing is excused only if another message of the same request for the same peer was reported failed (the queue deliberately discards the rest of a failed request). Non-trivial: a request with >= 2 messages and a fault, extension data, or a disconnect while a reservation is pending.",
    technique="rapid fault-history testing of the real queue stack with per-attachment exactly-once oracle", design_ref="DESIGN.md §5 C16")
CHECKS["C17"] = dict(CHECKS["C15"], pkg="props/c17",
    rule=CHECKS["C15"]["rule"].split("Oracle:")[0] + "The queue factory records every queue's creation, Shutdown() call and shutdown callback. Oracle: at every quiescent point at most one queue per peer is live (created, not told to stop, callback not run); at the end, a peer with no connection and no outstanding Connected has no live queue; if message part a was completely queued before part b was submitted, b never reaches SendMsg in an earlier message than a. Non-trivial: a transaction or connect happens while an older queue for the peer has been told to stop but has not finished winding down.",
    assumptions=_MQ_ASSUME,
    technique="rapid fault-history testing of the real peer manager / queue stack with lifecycle and FIFO oracles", design_ref="DESIGN.md §5 C17")

_LIFE_ASSUME = _SIM_ASSUME + [
    "every paused response is eventually unpaused or cancelled (the script's last phase does so), every storage gate is opened and every stalled send released before the final observation",
    "a peer that sends a message is connected (the responder is told Connected before the message is delivered)",
]
CHECKS["C05"] = dict(
    pkg="props/c05", level="fault_enumeration", gomaxprocs=1,
    rule="one real responder (store = a generated DAG) and two scripted requestor peers; 1-4 New requests (DAG root or an inner block as root; request hook validates / does not validate / errors / pauses; outgoing-block hook pauses, errors or sends extension data at block 1-4), interleaved with 0-3 further operations per request from {requestor cancel message, requestor update message (extension that makes the update hook unpause / error / inert), responder API pause / unpause / cancel / SendUpdate, disconnect, open the storage gate, release stalled sends}; after each operation the harness either only waits for quiescence (no virtual time passes: retry back-offs and thaw tickers are still pending) or lets 5 s pass; 0-3 of the responder's first 13 SendMsg calls fail, 0-2 of its first 9 stall until released, 0-2 of its first 7 connect attempts fail, MessageSendRetries 1-2, the n-th storage read blocks until released (keeps a response Running), MaxInProgressIncomingRequests from {default,1,2} and per-peer limit {unset,1} (keeps responses Queued). Oracle at final quiescence (all gates open, + 1 min virtual): every received request has exactly one outcome - completed listener once with the terminal status last sent on the wire for it, or requestor-cancelled listener once (and only if its peer sent a cancel), or network-error listener(s) - and then PeerState lists no request state and no active/pending task for either peer, no connection tag is protected, no response memory is allocated or pending. Non-trivial: an operation hit a response still listed in PeerState, or a send/connect fault or stall actually happened. Two outcome patterns belonging to listed known findings are tolerated and counted.",
    assumptions=_LIFE_ASSUME,
    quick=dict(shards=2, timeout=400), thorough=dict(shards=16, timeout=3000),
    level_text="Generated operation/fault scripts against a real responder with exact quiescence; the end-state oracle (one outcome, nothing retained) is checked after every script. Two defects found and fixed, two recorded.",
    level_note="Intra-step goroutine interleavings are not controlled (GOMAXPROCS=1 makes them repeatable, not exhaustive).",
    technique="rapid fault-script testing of a real responder in a synctest bubble with an end-state oracle", design_ref="DESIGN.md §4 C05")

CHECKS["C23"] = dict(
    pkg="props/c23", level="exploration", gomaxprocs=1,
    rule="two scenarios. (a) a real requestor and a real responder exchange 1-4 requests (DAG root or inner block roots, generated store split) while a generated list of up to 34 operations owns every boundary event: issue request i, deliver the oldest message of a chosen direction, requestor API pause / unpause / cancel, responder API pause / unpause / cancel, open a per-request storage gate on either side, let 150 ms pass; each request may pause itself from the requestor's incoming-block hook or the responder's outgoing-block hook at block 1-4, or be held Running by a storage gate at its n-th read on either side; outgoing / incoming worker limits from {default,1,2}, per-peer limit {unset,1}. (b) the responder-lifecycle scenario of C05 (two scripted requestors, send / connect faults, stalled sends, disconnects). After EVERY operation the harness waits for exact quiescence and reads PeerState for each peer: OutgoingState.Diagnostics() and IncomingState.Diagnostics() must be empty (queued <=> pending, running <=> active, paused / completing in neither, no task without state). At the end everything paused is resumed and every gate opened; when no request is listed any more, Stats() must report 0 active, 0 pending requests and 0 allocated, 0 pending bytes on both sides. Non-trivial: some quiescent point lists a paused or completing request beside a queued or running one, or lists several requests with one waiting in the pending queue.",
    assumptions=_LIFE_ASSUME,
    quick=dict(shards=2, timeout=400), thorough=dict(shards=16, timeout=3000),
    level_text="Generated operation lists with the state/queue agreement checked at every quiescent point (typically 10-40 per case), not at hand-picked moments. One defect (cancelled queued request keeps its task) found and fixed.",
    level_note="Quiescence is synctest's: every goroutine of both instances durably blocked. Trusts peerstate.Diagnostics as the definition of agreement (it is the property's own observation point).",
    technique="rapid operation-sequence testing in a synctest bubble with an invariant checked at every quiescent point", design_ref="DESIGN.md §4 C23")

CHECKS["C06"] = dict(
    pkg="props/c06", level="exploration", gomaxprocs=1, replay_reps=10,
    rule="a C02-style case (generated DAG x selector x 4-way store split) run twice between two real instances: uninterrupted, and with a generated pause script: the requestor's incoming-block hook pauses at its n-th block (1-6) or the responder's outgoing-block hook pauses at block n, or a storage gate on either side holds the traversal at its n-th read; plus up to 24 operations from {deliver the oldest message of a chosen direction, requestor API pause / unpause, responder API pause / unpause, open a gate, let 150 ms pass}; at the end everything paused is resumed (repeatedly) and everything delivered. Oracle (metamorphic): delivered (path,node,last-block) sequence, error multiset, channel closure and stored blocks equal those of the uninterrupted run; and after a message carrying RequestPaused for the request the responder sends no metadata or block for it until it is unpaused (or the requestor cancels / re-sends the request). Non-trivial: PeerState listed the request as paused on either side at some quiescent point, it needed the responder, and it delivers more than one node. Cases in three known-finding classes are excluded by construction and counted.",
    assumptions=_SIM_ASSUME + ["every paused request is eventually resumed by the script", "the uninterrupted run on the same tree is the reference (C02 judges that run against the independent reference traversal)"],
    quick=dict(shards=2, timeout=400), thorough=dict(shards=16, timeout=3000),
    level_text="Metamorphic random testing: every case is its own control; pause points, sides, triggers and the interleaving of in-flight messages with the resume are generated. Two defects found and fixed, two recorded.",
    level_note="Trusts the uninterrupted run as reference. Schedule freedom inside one harness step is the Go scheduler's (GOMAXPROCS=1); replays are repeated 10x.",
    technique="rapid metamorphic testing (paused vs uninterrupted run) in a synctest bubble", design_ref="DESIGN.md §4 C06")

CHECKS["C20"] = dict(
    pkg="props/c20", level="exploration", gomaxprocs=1, replay_reps=5,
    rule="2-3 requests from one real requestor to one real responder over one generated DAG (each rooted at the DAG root or at one of the three blocks below it, so their DAGs overlap; the responder holds everything, the requestor a generated subset; one case in four uses dedup-by-key with own stores), issued all at once, staggered (a later request starts after 1-7 deliveries) or at generated points of an operation list of up to 24 {deliver the oldest message of a chosen direction, issue request i, open a gate, let 150 ms pass}; relative speeds come from per-request stalls: the responder's n-th storage read for the request blocks, the requestor's executor for the request stalls in its block hook after block n, until a gate operation; worker limits {default,1,2} on both sides. Every request is also run alone from the same initial stores. Oracle (metamorphic): each request's delivered (path,node,last-block) sequence, error multiset and channel closure equal its run-alone outcome, and every block its store holds after the run-alone is in its store after the concurrent run. Non-trivial: the responder actually withheld a block from one request because it had transmitted it for another (observed on the wire). Cases in the known-finding class are excluded by construction and counted.",
    assumptions=_SIM_ASSUME + ["the responder holds the whole DAG (keeps the skip-count finding of C02 out of this check)", "run-alone outcome on the same tree is the reference"],
    quick=dict(shards=2, timeout=400), thorough=dict(shards=16, timeout=3000),
    level_text="Metamorphic random testing of concurrent overlapping requests against their run-alone outcomes, with generated relative speeds; one protocol-level defect recorded.",
    level_note="Trusts the run-alone outcome as reference; intra-step interleavings are the Go scheduler's.",
    technique="rapid metamorphic testing (concurrent vs run-alone) in a synctest bubble", design_ref="DESIGN.md §4 C20")

CHECKS["C22"] = dict(
    pkg="props/c22", level="fault_enumeration", gomaxprocs=1, crash_class=True,
    rule="two real instances; request 1 fetches a generated DAG (recursive explore-all), request 2 (the bystander) a second, content-disjoint generated DAG, issued before or after request 1 gets going; a panic is injected at the k-th distinct block (k = 0..5) of request 1's traversal in one user-supplied function: codec decoder (custom DecoderChooser), node reifier, link-target prototype chooser (installed through the request hooks), storage read, storage write / commit, on the requestor or the responder. Every case is journaled before it runs and also run without the injection. Oracle: the process survives (a dead worker is attributed to the journaled case); the panic fired => requestor site: request 1's channels close and its error channel reported an error; responder site: the response ends with exactly one terminal status and it is a failure status; the panic value reached the panic callback configured on the side where it was raised; the bystander's delivered nodes, errors and channel closure are identical to the run without injection. Non-trivial: the injected site was actually reached. Storage-function sites belong to a listed known finding and are excluded by construction.",
    assumptions=_SIM_ASSUME + ["'selector' as a panic site would need a hostile ipld.Node implementation of the selector itself and is not injected"],
    quick=dict(shards=2, timeout=400), thorough=dict(shards=16, timeout=3000),
    level_text="Site x side x block-index fault grid on generated DAGs with a differential bystander check; crash attribution through a journal. One defect class (storage functions) recorded.",
    level_note="Intra-step interleavings are the Go scheduler's.",
    technique="rapid fault-injection testing (panic sites) in a synctest bubble with crash journaling", design_ref="DESIGN.md §4 C22")

CHECKS["C25"] = dict(
    pkg="props/c25", level="fault_enumeration", gomaxprocs=1,
    rule="one real responder serving a chain of 3-8 blocks (60 / 150 / 400 byte payloads) with a per-peer memory limit of 1-3 blocks (sometimes a total limit of 3 peers' worth), 2-6 workers and per-peer request limit {unset,1,2}; a stalled peer S whose every SendMsg blocks for ever first issues 1-2 requests until its allowance is exhausted (a reservation for S is pending: read from Stats); then 2-10 generated operations for S and for a healthy peer H: new requests (optionally with a request hook that sends extension data), cancel and update messages, responder API pause / unpause (optionally with extensions) / SendUpdate / cancel, 150 ms pauses; H's responses may pause themselves at a block and are resumed at the end; the block hook may add extension data to every block for H. S is never released. Oracle at final quiescence + 1 h virtual: every request H issued was answered to its terminal status (completed listener) or was cancelled by H; every control call (including PeerState for H) returned. Non-trivial: S's allowance was actually exhausted before the healthy traffic began (cases where it was not are not judged). Cases in two known-finding classes are excluded by construction and counted.",
    assumptions=_SIM_ASSUME + ["the requestor-side half of the property (a stalled responder does not stop responses from others) is exercised only through the requestor's size-0 request sends; no memory is reserved there"],
    quick=dict(shards=2, timeout=400), thorough=dict(shards=16, timeout=3000),
    level_text="Generated multi-peer traffic against a responder with one peer stalled for ever; liveness decided at exact quiescence with an hour of virtual time, not by a wall-clock deadline. Two defect classes recorded.",
    level_note="Intra-step interleavings are the Go scheduler's.",
    technique="rapid fault-injection testing (stalled peer) in a synctest bubble with a liveness oracle at quiescence", design_ref="DESIGN.md §4 C25")

CHECKS["C21"] = dict(
    pkg="props/c21", level="exploration", gomaxprocs=4,
    rule="two scenarios. (a) the real WorkerTaskQueue (1-4 workers, per-peer outstanding-work limit {unset,1,2}) with an instrumented executor that holds every task until the script releases it: 3-40 operations {push a task for one of 2-4 peers with priority 0-3, remove (cancel) one of a peer's not-yet-started tasks, let one running task finish, let 120 ms pass}; after every operation, at exact quiescence: tasks executing at once <= workers and, per peer, <= the per-peer limit, no task executed twice; at the end every running task is released repeatedly and virtual time passes the thaw interval: every task pushed and not removed was executed exactly once, no removed task ran. (b) two real instances exchanging 2-4 requests (responder holds everything) with MaxInProgressOutgoingRequests / MaxInProgressIncomingRequests from {1,2,3}, per-peer limit {unset,1}, executions held inside per-request storage gates / block-hook stalls and released by the script: at every quiescent point the number of executions the harness itself is holding, and the active list the node reports, are within the limits; at the end every request (none is cancelled) has run to completion (its channels are closed; what it delivered is the business of C02 and C20). Non-trivial: a limit was binding while other work waited (and, for (a), at least two peers had work).",
    assumptions=_SIM_ASSUME + ["starvation under unbounded arrival streams is not decidable by finite scripts: what is checked is completion of every finite arrival pattern"],
    quick=dict(shards=2, timeout=400), thorough=dict(shards=16, timeout=3000),
    level_text="Generated arrival / completion / cancel scripts against the real worker queue with an instrumented executor, and against real instances with held executions; limits checked at every quiescent point, completion at the end.",
    level_note="Trusts synctest quiescence; executions are counted by the harness's own gates, independently of the node's reports. Runs with GOMAXPROCS=4 so that the order in which goroutines woken by one event run varies (the oracles do not depend on it).",
    technique="rapid operation-sequence testing of the worker queue and of real instances in a synctest bubble", design_ref="DESIGN.md §5 C21")

CHECKS["C12"] = dict(
    pkg="props/c12", level="exploration", gomaxprocs=2, crash_class=True,
    rule="streams of 1-3 frames; each frame is a generated well-formed message (every shape of the v2 schema, as in C11) that is left alone, or mutated at the IPLD level after decoding its CBOR body into a generic tree (1-3 of: delete a map / list entry, replace a subtree by a generated value, shorten / lengthen / empty a byte string - request ids, CID prefixes, block data -, set a string to a keyword or junk, set an int to a boundary value or an unknown enum, duplicate a list element, wrap a value in a list) and re-encoded, or mutated at the byte level (bit flip, truncation, inserted byte, dropped byte, forged length prefix incl. zero and > 2^33). The stream is cut into frames by the harness's own varint framing; the first frame that is incomplete or that the decoder refuses is 'the malformed message'. The stream is fed through a fake libp2p stream to the REAL libp2pGraphSyncNetwork.handleNewStream (captured from SetDelegate through a fake host). Oracle: the handler returns, no panic escapes; the frames before the malformed one are delivered in order and equal what they decode to; a malformed frame => exactly one ReceiveError, the stream is Reset, nothing delivered afterwards; no malformed frame => no error, no reset; every delivered block's CID equals prefix.Sum(its bytes) recomputed by the harness; every delivered request / response id is 16 bytes; a second, honest stream is then served. One case in three additionally delivers everything that decoded to a live default-configured node (both managers): the process survives (journaled), PeerState answers, and an honest request issued afterwards completes. Non-trivial: the stream was tampered with and got past CBOR decoding (schema-level reject, or accepted). Thorough tier adds native coverage-guided campaigns (go test -fuzz) on the same stream oracle and on the bare decoder, seeded with generated encodings and hostile constants.",
    assumptions=["libp2p itself is replaced by a fake host / stream: 'the stream is reset' is observed as the Reset call", "'decodes' is judged with the decoder under test; the delivered-message invariants (CID = hash of bytes, 16-byte ids) are recomputed independently"],
    quick=dict(shards=2, timeout=400), thorough=dict(shards=16, timeout=3000, fuzz=[("FuzzStream", 300), ("FuzzDecode", 120)]),
    level_text="Structure-aware mutation testing of the real stream handler and a live node, plus (thorough) native coverage-guided fuzzing of the same oracle. Three defects found and fixed (null extension payload and missing selector crash the node; truncated message taken for a clean end of stream).",
    level_note="No libp2p transport is involved. Go's native fuzzer cannot be pinned to a seed; a saved crasher is the reproducible unit.",
    technique="rapid structure-aware mutation testing + native go fuzzing with a stream-handler oracle", design_ref="DESIGN.md §6 C12")
